"""C09 - adaptation windows discard stale draws and honour the schedule (DESIGN section 4, C09)."""
import time
import z3
from ..driver import load_mir, REPO
from ..layout import Layouts
from ..adaptq import AdaptQuery, METHODS
from ..vm import VM, Machine, Struct, Enum, Seq, Ref, Opaque, UNIT, NONE, SOME, ret
from ..alg import RealAlg, Fl
from ..mathenv import MathEnv

def run(rep):
    mir = load_mir(rep); L = Layouts(REPO)
    rep.bounds = {'draws': 'unbounded (one inductive step of adapt(draw) from an arbitrary schedule state satisfying the invariant)', 'integers': '[0, 2^32)', 'growth': '[1, 1024]',
                  'estimators': 'DiagAdaptStrategy and LowRankMassMatrixStrategy swap/update functions, d = 1, up to 3 stored draws in the low-rank window'}
    rep.assumptions += ['schedule invariant as in C06; the mass-matrix strategy A is an oracle with the contract {update_estimators: +1 on both estimators iff the draw is good; switch: foreground := background, background := empty}; that contract is checked on the real strategies below',
                        'A::adapt may or may not report a change (both explored); Strategy::init (step-size search) is the environment', 'exact reals; round() satisfies |round(x)-x| <= 1/2 and is integral']
    rep.outside += ['what the estimators compute from a window (C08)', 'flow / external adaptation']
    s = z3.Solver(); s.set('timeout', 30000)
    I = z3.Int; R = z3.Real
    draw, nt, fw, ee = I('draw'), I('num_tune'), I('final_window'), I('early_end')
    for method in METHODS:
        t0 = time.time(); q = AdaptQuery(mir, L, method, True); outs = q.run(); rep.paths += len(outs); rep.absorb_vm(q.vm); A = q.A
        def sat(cs):
            s.push(); s.add(*cs); s.add(*A.lemmas); r = s.check(); md = s.model() if r == z3.sat else None; s.pop()
            if r == z3.unknown: r, md = rep.solve(list(cs) + list(A.lemmas))      # the incremental solver gave up: fresh solvers, other seeds
            if r == z3.unknown: rep.unknown('C09 solver unknown')
            return (r == z3.sat), md
        # reference schedule (from the property statement), over the pre-state
        good = z3.Bool('is_good'); bg0, fg0, w0 = I('bg_count'), I('fg_count'), I('window')
        is_early = draw < ee
        w_seed = z3.If(z3.And(z3.Not(is_early), draw == ee), z3.If(w0 >= bg0, w0, bg0), w0)
        bg1 = z3.If(good, bg0 + 1, bg0); fg1 = z3.If(good, fg0 + 1, fg0)
        freq = z3.If(is_early, I('early_switch_freq'), w_seed)
        # the next main-phase window: the statement asks for geometric growth by the configured factor and for windows that never shrink; how w * growth is
        # rounded to an integer is the implementation's choice, so every N with max(w, floor(w g)) <= N <= max(w + 1, ceil(w g)) is admissible (the code's own `+ 1` guard is allowed, not required)
        wg = z3.ToReal(w_seed) * R('growth'); flo = z3.ToInt(wg); cei = -z3.ToInt(-wg)
        mx = lambda a, b: z3.If(a >= b, a, b)
        n_min = z3.If(is_early, I('early_switch_freq'), mx(w_seed, flo)); n_max = z3.If(is_early, I('early_switch_freq'), mx(w_seed + 1, cei))
        late_all = n_min + draw > fw            # no admissible next window fits before the final step-size window
        late_some = n_max + draw > fw           # at least one admissible next window does not fit
        could = bg1 >= freq
        tag = 'C09 adapt() %s' % method; bad = {}; reached = set()
        for (m, k, v) in outs:
            if k == 'panic': bad.setdefault('panic', ('reachable panic in adapt: %s' % (v,), {})); continue
            p = q.post(m); ev = p['events']; names = [e[0] for e in ev]
            def chk(what, cond, key):
                ok, md = sat(m.pc + [cond])
                if ok: bad.setdefault(key, (what, {d.name(): str(md[d]) for d in md.decls() if d.name() in ('draw', 'num_tune', 'final_window', 'early_end', 'window', 'bg_count', 'fg_count', 'switch_freq', 'early_switch_freq', 'update_freq', 'growth', 'last_update', 'is_good', 'has_initial')}))
            in_mm = draw < fw
            switched = 'switch' in names; adapted = [e for e in ev if e[0] == 'mm_adapt']; did_change = bool(adapted) and adapted[0][1]; inited = [e for e in ev if e[0] == 'step_size_init']
            # region: final window / after warm-up -> no mass-matrix activity at all (shared with C06)
            if switched or adapted or inited or 'update_estimators' in names: chk('mass-matrix activity outside the mass-matrix phase', z3.Not(in_mm), 'phase')
            else: chk('no estimator update although the draw is inside the mass-matrix phase', in_mm, 'phase_missing')
            if 'update_estimators' not in names: continue
            reached.add('mm')
            # switch <=> a full window of accepted draws is in the background AND another full window still fits (for the window size the code itself
            # chooses next, which must be admissible)
            w_after = p['window']
            if switched:
                reached.add('switch')
                chk('window switch although the background does not hold a full window', z3.Not(could), 'switch_rule')
                chk('window switch although no admissible next window fits before the final step-size window', late_all, 'switch_rule')
                chk('window switch although the next window the code chose does not fit before the final step-size window', z3.And(z3.Not(is_early), w_after + draw > fw), 'switch_rule')
                chk('window size after a main-phase switch is not the old size grown by the factor (rounded either way, at least + 1)', z3.And(z3.Not(is_early), z3.Or(w_after < n_min, w_after > n_max)), 'window_growth')
                chk('window size changes on an early-phase switch', z3.And(is_early, w_after != w_seed), 'window_growth')
            else:
                chk('no window switch although the background holds a full window and every admissible next window still fits before the final step-size window', z3.And(could, z3.Not(late_some)), 'switch_rule')
                chk('window size changes without a switch (other than the seed at the early->main boundary)', w_after != w_seed, 'window_growth')
            # counts after: foreground = old background, new background empty
            mm = p['mm']
            chk('estimator counts after the step are wrong (stale draws kept or fresh ones lost)', z3.Or(mm['fg'] != (bg1 if switched else fg1), mm['bg'] != (z3.IntVal(0) if switched else bg1)), 'counts')
            chk('window size shrank', w_after < w0, 'window_shrinks')
            # transformation update cadence
            chk('A::adapt called although neither a switch happened nor update_freq draws passed (or vice versa)', z3.BoolVal(bool(adapted)) != z3.Or(z3.BoolVal(switched), draw - I('last_update') >= I('update_freq')), 'update_cadence')
            chk('last_update bookkeeping wrong', p['last_update'] != (draw if did_change else I('last_update')), 'last_update')
            # first transformation change re-runs the step-size search, later ones do not
            chk('step-size search not re-run exactly on the first transformation change', z3.BoolVal(bool(inited)) != z3.And(z3.BoolVal(did_change), z3.Bool('has_initial')), 'first_change_search')
            chk('has_initial_mass_matrix flag wrong after the step', _b(p['has_initial']) != z3.And(z3.Bool('has_initial'), z3.Not(z3.BoolVal(did_change))), 'has_initial_flag')
            if inited and inited[0][1] is False and v.name != 'Err': bad.setdefault('init_err', ('error of the step-size search swallowed', {}))
            # which acceptance statistic feeds the estimator: symmetric (late) iff no further window fits
            if method == 'DualAverage':
                wgt = 1 / (z3.ToReal(I('da_count')) + R('t0'))
                new_mean = R('col_sum_mean') / z3.ToReal(I('col_count')); new_sym = R('col_sum_sym') / z3.ToReal(I('col_count'))
                e_sym = (1 - wgt) * R('hbar') + wgt * (R('target') - new_sym); e_mean = (1 - wgt) * R('hbar') + wgt * (R('target') - new_mean)
                got = p['da_hbar'].v
                chk('dual averaging fed with the early (asymmetric) statistic although no admissible next window fits any more (the symmetric statistic must be used from then on)', z3.And(late_all, got != e_sym), 'late_statistic')
                chk('dual averaging fed with the late (symmetric) statistic although every admissible next window still fits', z3.And(z3.Not(late_some), got != e_mean), 'late_statistic')
                chk('dual averaging fed with neither acceptance statistic of the trajectory', z3.And(got != e_sym, got != e_mean), 'late_statistic')
        for r in ('mm', 'switch'): rep.cover('%s reachable: %s' % (tag, r), r in reached)
        # final window: only the late statistic + step size update
        for (m, k, v) in outs:
            if k != 'ret': continue
            p = q.post(m)
            if method == 'DualAverage' and 'update_estimators' not in [e[0] for e in p['events']]:
                wgt = 1 / (z3.ToReal(I('da_count')) + R('t0')); new_sym = R('col_sum_sym') / z3.ToReal(I('col_count'))
                ok, md = sat(m.pc + [draw >= fw, draw < nt, p['da_hbar'].v != (1 - wgt) * R('hbar') + wgt * (R('target') - new_sym)])
                if ok: bad.setdefault('final_window_statistic', ('final step-size window does not use the symmetric acceptance statistic', {d.name(): str(md[d]) for d in md.decls()[:12]}))
        for key, (what, md) in bad.items():
            rep.violated('%s: %s' % (tag, key), 'adapt.%s' % key, '%s [%s] e.g. %s' % (what, method, md), model=md)
        if not bad: rep.holds('%s: switch rule, counts after swap, window growth, update cadence, first-change search, early/late statistic (%d paths)' % (tag, len(outs)), time.time() - t0)
        if method == 'DualAverage': rep.sample({'query': tag, 'reference': 'switch iff background >= window and the next window N fits (N + draw <= final window start), N in [max(w, floor(w g)), max(w+1, ceil(w g))]'})
    diag_contract(rep, mir, L)
    from ..driver import parts
    parts(rep, [lambda: lowrank_contract(rep, mir, L), lambda: validate_schedule(rep, mir, L, SCHEDULES[:2] if rep.tier == 'quick' else SCHEDULES)])

def _b(v): return z3.BoolVal(v) if isinstance(v, bool) else v

def diag_contract(rep, mir, L):
    """the oracle contract of A on the real DiagAdaptStrategy: update_estimators adds to all four estimators iff is_good, switch moves background
    to foreground and empties the background, counts read what they should"""
    A = RealAlg(); vm = VM(mir, A, inst={}); env = MathEnv(vm, 1, 'uf', L)
    F = 'src/transform/adapt/diagonal.rs'
    upd = mir.method('Strategy', 'MassMatrixAdaptStrategy', 'update_estimators', file='diagonal'); sw = mir.method('Strategy', 'MassMatrixAdaptStrategy', 'switch', file='diagonal')
    bgc = mir.method('Strategy', 'MassMatrixAdaptStrategy', 'background_count', file='diagonal'); fgc = mir.method('Strategy', 'MassMatrixAdaptStrategy', 'current_count', file='diagonal')
    def rv(tag): return L.make('RunningVariance', {'mean': Seq([A.fresh('mean_' + tag)]), 'variance': Seq([A.fresh('var_' + tag)]), 'count': z3.Int('n_' + tag)})
    def strat():
        return L.make('Strategy', {'exp_variance_draw': rv('fd'), 'exp_variance_grad': rv('fg'), 'exp_variance_grad_bg': rv('bg'), 'exp_variance_draw_bg': rv('bd'),
                                   '_settings': Opaque('settings'), '_phantom': Struct((), 'PhantomData')}, file='diagonal')
    pre = [z3.Int('n_' + t) >= 0 for t in ('fd', 'fg', 'bg', 'bd')] + [z3.Int('n_' + t) < 2 ** 32 for t in ('fd', 'fg', 'bg', 'bd')] + [z3.Int('n_fd') == z3.Int('n_fg'), z3.Int('n_bd') == z3.Int('n_bg')]
    bad = []; npaths = 0
    cnt = lambda st, f: L.get('RunningVariance', L.get('Strategy', st, f, file='diagonal'), 'count')
    for good in (True, False):
        m = Machine(); m.pc = list(pre); c = m.alloc(strat())
        col = L.make('DrawGradCollector', {'draw': Seq([A.fresh('x')]), 'grad': Seq([A.fresh('g')]), 'is_good': good})
        outs = vm.run(upd, [Ref(c), Ref(m.alloc(Opaque('math'))), Ref(m.alloc(col))], m); npaths += len(outs)
        for (mm, k, v) in outs:
            if k != 'ret': bad.append(('update_estimators panics', str(v))); continue
            st = mm.mem[c]; d = 1 if good else 0
            s = z3.Solver(); s.add(*mm.pc)
            s.add(z3.Or(cnt(st, 'exp_variance_draw') != z3.Int('n_fd') + d, cnt(st, 'exp_variance_grad') != z3.Int('n_fg') + d, cnt(st, 'exp_variance_draw_bg') != z3.Int('n_bd') + d, cnt(st, 'exp_variance_grad_bg') != z3.Int('n_bg') + d))
            if s.check() != z3.unsat: bad.append(('update_estimators: counts after a %s draw wrong' % ('good' if good else 'rejected'), str(s.model())))
    m = Machine(); m.pc = list(pre); c = m.alloc(strat())
    outs = vm.run(sw, [Ref(c), Ref(m.alloc(Opaque('math')))], m); npaths += len(outs)
    for (mm, k, v) in outs:
        if k != 'ret': bad.append(('switch panics', str(v))); continue
        st = mm.mem[c]; g = lambda f, fld: L.get('RunningVariance', L.get('Strategy', st, f, file='diagonal'), fld)
        s = z3.Solver(); s.add(*mm.pc)
        s.add(z3.Or(cnt(st, 'exp_variance_draw') != z3.Int('n_bd'), cnt(st, 'exp_variance_grad') != z3.Int('n_bg'), cnt(st, 'exp_variance_draw_bg') != 0, cnt(st, 'exp_variance_grad_bg') != 0,
                    g('exp_variance_draw', 'mean').items[0].v != z3.Real('mean_bd'), g('exp_variance_grad', 'mean').items[0].v != z3.Real('mean_bg'),
                    g('exp_variance_draw', 'variance').items[0].v != z3.Real('var_bd'), g('exp_variance_grad', 'variance').items[0].v != z3.Real('var_bg')))
        if s.check() != z3.unsat: bad.append(('switch: foreground is not the old background / new background not empty', str(s.model())))
        for fn, want in ((bgc, z3.IntVal(0)), (fgc, z3.Int('n_bd'))):
            m3 = mm.clone(); o3 = vm.run(fn, [Ref(c)], m3)
            for (m4, k4, v4) in o3:
                if k4 != 'ret': bad.append(('count accessor panics after switch', str(v4))); continue
                s = z3.Solver(); s.add(*m4.pc); s.add(v4 != want)
                if s.check() != z3.unsat: bad.append(('count accessor wrong after switch', fn.name))
    rep.paths += npaths; rep.absorb_vm(vm)
    if bad: rep.violated('C09 DiagAdaptStrategy satisfies the estimator contract', 'diag.contract', 'diagonal strategy: %s' % (bad[0],), model={'problems': [str(b)[:300] for b in bad]})
    else: rep.holds('C09 DiagAdaptStrategy: update_estimators counts a draw iff it is good (all four estimators), switch makes the old background the foreground (mean/variance/count) and starts an empty background (%d paths)' % npaths)


def lowrank_contract(rep, mir, L):
    """the oracle contract of A on the real LowRankMassMatrixStrategy (VecDeque window): update_estimators appends the collector's draw and
    gradient iff the draw is good, switch drops exactly the draws recorded before the previous switch (so nothing older than two windows
    survives), the counts read foreground = all kept draws / background = draws since the last switch, and update() hands exactly the kept
    window, in order, to the estimation pipeline (compute_update is the environment)."""
    from ..vm import SliceRef, VMError
    A = RealAlg(); vm = VM(mir, A, inst={}); env = MathEnv(vm, 2, 'uf', L); DIM = 2
    F = 'low_rank'
    meth = lambda n: mir.method('LowRankMassMatrixStrategy', 'MassMatrixAdaptStrategy', n, file='adapt/low_rank')
    upd, sw, bgc, fgc, adapt = meth('update_estimators'), meth('switch'), meth('background_count'), meth('current_count'), meth('adapt')
    # faer Mat as a list of columns
    vm.add_model(r'^mat::matown::<impl faer::mat::generic::Mat<faer::mat::Own<f64>>>::zeros$', lambda vm, m, c, a: ret(m, Struct((Seq([Seq([A.const(0.0)] * a[0]) for _ in range(a[1])]),), 'Mat')))
    def col_as_slice_mut(vm, m, c, a):
        r = a[0]; mat = vm.read_at(m, r.cell, r.path); return ret(m, SliceRef(r.cell, r.path + (('f', 0), ('i', a[1])), 0, len(mat.f[0].items[a[1]].items)))
    vm.add_model(r'^mat::matown::<impl faer::mat::generic::Mat<faer::mat::Own<f64>>>::col_as_slice_mut$', col_as_slice_mut)
    def compute_update(vm, m, c, a): m.log('events', ('compute_update', a[1], a[2])); return ret(m, NONE())
    vm.add_model(r'^LowRankMassMatrixStrategy::compute_update$', compute_update)
    bad = []; npaths = 0
    def tag(kind, i): return Seq([Fl(z3.Real('%s%d_%d' % (kind, i, j))) for j in range(DIM)])
    def strat(k, b): return L.make('LowRankMassMatrixStrategy', {'draws': Seq([tag('x', i) for i in range(k)]), 'grads': Seq([tag('g', i) for i in range(k)]), 'ndim': DIM, 'background_split': b, 'settings': Opaque('settings')})
    def get(st, f): return L.get('LowRankMassMatrixStrategy', st, f)
    def same(a, b): return len(a.items) == len(b.items) and all(vm._same(x, y) for x, y in zip(a.items, b.items))
    for k in range(0, 5):
        for b in range(0, k + 1):
            # update_estimators
            for good in (True, False):
                m = Machine(); m.ghost['events'] = []; c = m.alloc(strat(k, b)); before = m.mem[c]
                col = L.make('DrawGradCollector', {'draw': tag('nx', 0), 'grad': tag('ng', 0), 'is_good': good})
                outs = vm.run(upd, [Ref(c), Ref(m.alloc(Opaque('math'))), Ref(m.alloc(col))], m); npaths += len(outs)
                for (mm, kk, v) in outs:
                    if kk != 'ret': bad.append(('update_estimators panics (k=%d)' % k, str(v)[:100])); continue
                    st = mm.mem[c]; wd = list(get(before, 'draws').items) + ([tag('nx', 0)] if good else []); wg = list(get(before, 'grads').items) + ([tag('ng', 0)] if good else [])
                    if not same(get(st, 'draws'), Seq(wd)) or not same(get(st, 'grads'), Seq(wg)) or get(st, 'background_split') != b:
                        bad.append(('update_estimators: window after a %s draw is not the old window%s' % ('good' if good else 'rejected', ' + (draw, gradient) of the collector' if good else ''), 'k=%d b=%d' % (k, b)))
            # switch, counts
            m = Machine(); m.ghost['events'] = []; c = m.alloc(strat(k, b)); before = m.mem[c]
            outs = vm.run(sw, [Ref(c), Ref(m.alloc(Opaque('math')))], m); npaths += len(outs)
            for (mm, kk, v) in outs:
                if kk != 'ret': bad.append(('switch panics from a state with %d draws, %d of them before the last switch' % (k, b), str(v)[:100])); continue
                st = mm.mem[c]
                if not same(get(st, 'draws'), Seq(get(before, 'draws').items[b:])) or not same(get(st, 'grads'), Seq(get(before, 'grads').items[b:])): bad.append(('switch does not drop exactly the draws recorded before the previous switch', 'k=%d b=%d' % (k, b)))
                if get(st, 'background_split') != k - b: bad.append(('switch: the new background does not start empty', 'k=%d b=%d' % (k, b)))
                for fn, want in ((bgc, 0), (fgc, k - b)):
                    for (m4, k4, v4) in vm.run(fn, [Ref(c)], mm.clone()):
                        if k4 != 'ret' or v4 != want: bad.append(('count accessor wrong after switch', fn.name.split('::')[-1], str(v4)))
            for fn, want in ((bgc, k - b), (fgc, k)):
                m = Machine(); c = m.alloc(strat(k, b))
                for (m4, k4, v4) in vm.run(fn, [Ref(c)], m):
                    if k4 != 'ret' or v4 != want: bad.append(('count accessor wrong', fn.name.split('::')[-1], 'k=%d b=%d got %s' % (k, b, v4)))
            # adapt -> update -> compute_update sees exactly the kept window
            m = Machine(); m.ghost['events'] = []; c = m.alloc(strat(k, b)); before = m.mem[c]
            outs = vm.run(adapt, [Ref(c), Ref(m.alloc(Opaque('math'))), Ref(m.alloc(Opaque('mass matrix')))], m); npaths += len(outs)
            for (mm, kk, v) in outs:
                if kk != 'ret': bad.append(('adapt panics (k=%d)' % k, str(v)[:100])); continue
                ev = [e for e in mm.ghost['events'] if e[0] == 'compute_update']
                if k < 3:
                    # fewer draws than the statement's three: whether to estimate already is the implementation's choice; if it does, from the kept window
                    if not ev:
                        if v is not False: bad.append(('adapt reports a change without running the estimation', 'k=%d' % k))
                        continue
                elif len(ev) != 1 or v is not True: bad.append(('adapt with %d draws does not run the estimation once and report a change' % k,)); continue
                if len(ev) != 1: bad.append(('adapt runs the estimation more than once', 'k=%d' % k)); continue
                dm, gm = ev[0][1].f[0], ev[0][2].f[0]
                if not same(dm, get(before, 'draws')) or not same(gm, get(before, 'grads')): bad.append(('the estimation pipeline does not receive exactly the kept window (draw i / gradient i as column i)', 'k=%d' % k))
    # a new strategy starts with an empty window and no background split; init() records exactly the start point
    try:
        newf = meth('new'); initf = meth('init')
        vm.add_model(r' as Math>::dim$', lambda vm, m, c, a: ret(m, DIM))
        vm.add_model(r'^LowRankMassMatrix::<M>::update_from_grad$', lambda vm, m, c, a: ret(m, UNIT))
        vm.add_model(r' as Point<M>>::position$|^<impl Point<M> as Point<M>>::position$', lambda vm, m, c, a: ret(m, Ref(m.ghost['pos'])))
        vm.add_model(r' as Point<M>>::gradient$|^<impl Point<M> as Point<M>>::gradient$', lambda vm, m, c, a: ret(m, Ref(m.ghost['grad'])))
        m = Machine(); m.ghost['events'] = []; m.ghost['pos'] = m.alloc(tag('px', 0)); m.ghost['grad'] = m.alloc(tag('pg', 0))
        o = vm.run(newf, [Ref(m.alloc(Opaque('math'))), Opaque('settings'), z3.Int('num_tune'), z3.Int('chain')], m); npaths += len(o)
        (m1, k1, st0) = o[0]
        if k1 != 'ret' or len(get(st0, 'draws').items) != 0 or len(get(st0, 'grads').items) != 0 or get(st0, 'background_split') != 0: bad.append(('a new low-rank strategy does not start with an empty window and split 0', str(st0)[:120]))
        else:
            c0 = m1.alloc(st0)
            o = vm.run(initf, [Ref(c0), Ref(m1.alloc(Opaque('math'))), Ref(m1.alloc(Opaque('nuts options'))), Ref(m1.alloc(Opaque('mass matrix'))), Ref(m1.alloc(Opaque('point'))), Ref(m1.alloc(Opaque('rng')))], m1); npaths += len(o)
            for (m2, k2, v2) in o:
                st1 = m2.mem[c0]
                if k2 != 'ret' or v2.name != 'Ok' or not same(get(st1, 'draws'), Seq([tag('px', 0)])) or not same(get(st1, 'grads'), Seq([tag('pg', 0)])) or get(st1, 'background_split') != 0:
                    bad.append(('init() does not leave exactly the start point (position, gradient) in the window with split 0', str(st1)[:160]))
    except Exception as e:
        rep.unknown('C09 low-rank strategy new/init', '%s: %s' % (type(e).__name__, str(e)[:200]))
    rep.paths += npaths; rep.absorb_vm(vm)
    if bad: rep.violated('C09 LowRankMassMatrixStrategy satisfies the estimator contract', 'lowrank.contract', 'low-rank strategy: %s' % (bad[0],), model={'problems': [str(x)[:300] for x in bad[:8]]})
    else: rep.holds('C09 LowRankMassMatrixStrategy (window of 0..4 draws, every split): update_estimators appends (draw, gradient) iff the draw is good, switch drops exactly the draws before the previous switch and starts an empty background, counts are exact, adapt needs >= 3 draws and feeds exactly the kept window to the estimation; new() starts empty with split 0 and init() records exactly the start point (%d paths)' % npaths)


SCHEDULES = [  # fractions are binary fractions so that exact reals and f64 agree in GlobalStrategy::new
    {'num_tune': 40, 'early_window': 0.25, 'step_size_window': 0.125, 'switch_freq': 8, 'early_switch_freq': 4, 'update_freq': 1, 'growth': 1.5, 'seed': 7},
    {'num_tune': 64, 'early_window': 0.125, 'step_size_window': 0.25, 'switch_freq': 6, 'early_switch_freq': 3, 'update_freq': 4, 'growth': 2.0, 'seed': 11},
    {'num_tune': 50, 'early_window': 0.5, 'step_size_window': 0.0, 'switch_freq': 10, 'early_switch_freq': 5, 'update_freq': 3, 'growth': 1.0, 'seed': 3},
    {'num_tune': 5, 'early_window': 0.25, 'step_size_window': 0.125, 'switch_freq': 80, 'early_switch_freq': 10, 'update_freq': 1, 'growth': 1.5, 'seed': 5},
    {'num_tune': 120, 'early_window': 0.25, 'step_size_window': 0.125, 'switch_freq': 16, 'early_switch_freq': 4, 'update_freq': 2, 'growth': 1.25, 'seed': 13},
]

def validate_schedule(rep, mir, L, configs):
    """translator / environment validation against the real build: a DiagNutsSettings chain is run natively (replay family `schedule`) and, draw
    by draw, the MIR of GlobalStrategy::adapt is executed with the integer schedule state pinned to the simulated history (step-size values stay
    symbolic: they must not influence the schedule).  Compared per draw: the tuning flag and whether the transformation changed (native:
    transformation_update_id present; model: A::adapt was called and >= 3 samples were in the estimator)."""
    from .. import native
    t0 = time.time(); nd = 0; mism = []
    for cfg in configs:
        nat = native.run('schedule', cfg, timeout=120)
        if not nat or not nat.get('confirmed'): rep.unknown('C09.V native schedule trace could not be produced for %s' % cfg, str(nat)[:200]); return
        q = AdaptQuery(mir, L, 'DualAverage', False); I = z3.Int; n = cfg['num_tune']
        # state after GlobalStrategy::new + init, from the code's own formulas executed in new() (checked symbolically by C06.e); here as numbers
        import math as _m
        st = {'early_end': int(cfg['early_window'] * n), 'final_window': n - min(n, int(cfg['step_size_window'] * n)), 'tuning': True, 'has_initial': True, 'last_update': 0, 'window': cfg['switch_freq'], 'fg_count': 1, 'bg_count': 1}
        from fractions import Fraction
        g = Fraction(cfg['growth'])
        for d in range(len(nat['tuning'])):
            good = (abs(nat['index_in_trajectory'][d]) > 4) if nat['diverging'][d] else (nat['index_in_trajectory'][d] != 0)
            pins = [I('draw') == d, I('num_tune') == n, I('early_end') == st['early_end'], I('final_window') == st['final_window'], I('last_update') == st['last_update'], I('window') == st['window'],
                    I('switch_freq') == cfg['switch_freq'], I('early_switch_freq') == cfg['early_switch_freq'], I('update_freq') == cfg['update_freq'], I('fg_count') == st['fg_count'], I('bg_count') == st['bg_count'],
                    z3.Bool('tuning') == st['tuning'], z3.Bool('has_initial') == st['has_initial'], z3.Bool('is_good') == good, q.A.fresh('growth').v == z3.RealVal(str(g))]
            outs = q.run(extra_pre=pins); rep.paths += len(outs); chosen = []
            for (m2, k, v) in outs:
                if k != 'ret' or v.name != 'Ok': continue
                post = q.post(m2); sol = z3.Solver(); sol.add(*m2.pc); sol.add(*q.A.lemmas)
                if sol.check() != z3.sat: continue
                md = sol.model(); ev = post['events']
                val = lambda t: md.eval(t, model_completion=True)
                fg = val(post['mm']['fg']).as_long(); bg = val(post['mm']['bg']).as_long()
                ad = [e for e in ev if e[0] == 'mm_adapt']
                if ad and ad[0][1] != (fg >= 3): continue          # DiagAdaptStrategy::adapt reports a change iff it holds >= 3 samples (C08 / source)
                if any(e[0] == 'step_size_init' and not e[1] for e in ev): continue
                chosen.append((post, md, fg, bg, bool(ad) and ad[0][1]))
            if len(chosen) != 1:
                mism.append({'config': cfg, 'draw': d, 'problem': 'model has %d consistent paths for the pinned state (expected 1)' % len(chosen)}); break
            post, md, fg, bg, changed = chosen[0]; val = lambda t: md.eval(t, model_completion=True)
            tun = val(post['tuning']) if z3.is_expr(post['tuning']) else post['tuning']
            tun = bool(tun) if isinstance(tun, bool) else z3.is_true(tun)
            nat_changed = nat['update_id'][d] is not None and d > 0
            if d == 0 and nat['update_id'][0] is None: mism.append({'config': cfg, 'draw': 0, 'problem': 'the initial transformation is not reported on the first draw'})
            if tun != nat['tuning'][d] or changed != nat_changed:
                mism.append({'config': cfg, 'draw': d, 'model': {'tuning': tun, 'transformation_changed': changed, 'events': [e[0] for e in post['events']]}, 'native': {'tuning': nat['tuning'][d], 'update_id': nat['update_id'][d]}}); break
            def iv(t): return t if isinstance(t, int) else val(t).as_long()
            def bv(t): return t if isinstance(t, bool) else z3.is_true(val(t))
            st.update({'tuning': bv(post['tuning']), 'has_initial': bv(post['has_initial']), 'last_update': iv(post['last_update']), 'window': iv(post['window']), 'fg_count': fg, 'bg_count': bg})
            nd += 1
        rep.absorb_vm(q.vm)
    rep.validated += nd
    if mism:
        rep.validation_mismatch += mism; rep.errors.append('translator validation: model and native schedule disagree: %s' % str(mism[0])[:400])
    else:
        rep.notes.append('C09.V schedule validation: %d draws of %d native chains (tuning flag and transformation-change draw by draw) agree with the MIR execution of GlobalStrategy::adapt (%.1fs)' % (nd, len(configs), time.time() - t0))
    rep.cover('C09.V native schedule traces compared draw by draw', nd > 0)
