"""C03 - every draw is a real trajectory state and its statistics describe it (DESIGN section 4, C03)."""
import time
import z3
from ..driver import load_mir, REPO
from ..layout import Layouts
from ..treecheck import explore, check_paths
from ..tree import TreeHarness

def run(rep):
    mir = load_mir(rep); L = Layouts(REPO)
    DMAX = 3 if rep.tier == 'quick' else 5
    rep.bounds = {'maxdepth': '0..=%d' % DMAX, 'mindepth': '0..=maxdepth', 'faults': 'every leapfrog may be ok / divergent / unrecoverable (symbolic per site)',
                  'weights': 'arbitrary w[s] > 0 per site (reals)', 'u_turn': 'arbitrary bit per ordered pair of sites', 'histories': 'one transition from an arbitrary chain state'}
    rep.assumptions += ['Hamiltonian/Collector/Math/RNG are the environment: leapfrog from site s in direction +-1 yields site s+-1 (or a fault), is_turning(a,b) is an arbitrary symmetric-by-index bit, every random word is arbitrary',
                        'State handles are abstract (clone = alias); the pool protocol itself is decided separately (engine K)',
                        'merge_into outcomes are merged (ite) instead of forked: exact, no path dropped',
                        'logaddexp(ln a, ln b) = ln(a+b), ln monotone, exp(ln a - ln b) = a/b (R policy, log-weight normal form)']
    rep.outside += ['histories longer than one transition', 'MCLMC (C18)', 'maxdepth > %d' % DMAX, 'floating-point rounding of weights']
    total = 0
    for D in range(0, DMAX + 1):
        for mind in range(0, D + 1):
            t0 = time.time()
            H, outs = explore(mir, L, D, mindepth=mind, faults=True)
            nv, nob = check_paths(rep, 'C03 maxdepth=%d mindepth=%d' % (D, mind), H, outs, D, mind, True)
            rep.absorb_vm(H.vm); total += len(outs)
            if nv == 0: rep.holds('C03 tree: draw in accepted trajectory, bounds, exact termination, momentum refresh once - maxdepth=%d mindepth=%d (%d paths, %d sub-obligations)' % (D, mind, len(outs), nob), time.time() - t0)
            if D == 2 and mind == 0:
                for o in outs[:3]: rep.sample({'dirs': o['dirs'], 'leapfrogs': o['leapfrogs'], 'depth': o.get('depth'), 'result': o.get('result'), 'draw': str(o.get('draw_sid'))[:200], 'pc': [str(c) for c in o['pc'][-3:]]})
            # covers: every stop reason is reachable
            if D == DMAX and mind == 0:
                from ..treecheck import path_code
                kinds = {path_code(o)[1] for o in outs if o['kind'] != 'panic'}
                for k in ('maxdepth', 'turn_acc', 'turn_rej', 'div', 'err'): rep.cover('C03 stop reason reachable: ' + k, k in kinds)
    # dim = 0: returns the start with depth 0 and no leapfrog
    H, outs = explore(mir, L, 2, dim=0)
    ok = len(outs) == 1 and outs[0]['kind'] == 'ret' and outs[0]['result'] == 'Ok' and outs[0]['depth'] == 0 and outs[0]['nleap'] == 0 and not z3.is_expr(outs[0]['draw_sid']) and outs[0]['draw_sid'] == 0
    rep.absorb_vm(H.vm); rep.paths += len(outs)
    if ok: rep.holds('C03 dim=0: start returned, depth 0, no leapfrog')
    else: rep.violated('C03 dim=0', 'tree.dim0', 'dim = 0 does not return the start with depth 0: %r' % ([(o['kind'], o.get('depth'), o['nleap']) for o in outs],))
    # at least one leapfrog when dim > 0 and maxdepth >= 1
    H, outs = explore(mir, L, 1, faults=True); rep.absorb_vm(H.vm)
    if all(o['nleap'] >= 1 for o in outs): rep.holds('C03 >= 1 integration step when dim > 0 and maxdepth >= 1')
    else: rep.violated('C03 at least one step', 'tree.one_step', 'a trajectory with maxdepth >= 1 integrates no step')
    target_time(rep, mir, L)
    from .pool import pool_scripts
    from ..driver import parts
    parts(rep, [lambda: pool_scripts(rep, mir, L, 5 if rep.tier == 'quick' else 7)])

def target_time(rep, mir, L):
    """target_integration_time = Some(t): the derived depth limits never exceed options.maxdepth (loop-free part of draw)"""
    from ..vm import SOME, Struct
    from ..alg import Fl
    from ..treecheck import path_code
    for D in (1, 2):
        H = TreeHarness(mir, L, D, faults=False)
        A = H.A
        def opts(m, H=H, A=A):
            return L.make('NutsOptions', {'maxdepth': H.maxdepth, 'mindepth': 0, 'check_turning': True, 'store_divergences': False,
                                          'target_integration_time': SOME(A.fresh('target_time')), 'extra_doublings': 0, 'max_energy_error': A.fresh('max_energy_error')})
        H.options = opts
        H.vm.add_model(r'^<H as Hamiltonian<M>>::step_size$', lambda vm, m, c, a: [(m, 'ret', A.fresh('step_size'))])
        # f64 -> u64 via num_traits::ToPrimitive: Some(trunc) when representable; log2/ceil/floor are uninterpreted (any value)
        def to_u64(vm, m, c, a):
            x = a[0]
            while not isinstance(x, Fl): x = vm.read_at(m, x.cell, x.path)
            k = m.fresh_id(); v = z3.Int('to_u64_%d' % k)
            outs = []
            m2 = m.clone(); m2.pc += [v >= 0, v < 2 ** 64]; outs.append((m2, 'ret', SOME(v)))
            outs.append((m, 'ret', Struct((), 'None') if False else __import__('mirsmt.vm', fromlist=['NONE']).NONE()))
            return outs
        H.vm.add_model(r'^<f64 as ToPrimitive>::to_u64$', to_u64)
        H.vm.loop_bound = D + 2          # unwinding assertion: the doubling loop header is entered at most maxdepth+1 times
        name = 'C03 target_integration_time=Some(t): depth <= options.maxdepth=%d' % D
        from ..vm import BoundExceeded
        try:
            outs = [H.summarize(*o) for o in H.run_draw([z3.Real('target_time') > 0, z3.Real('step_size') > 0])]
        except BoundExceeded as e:
            rep.absorb_vm(H.vm)
            rep.violated(name, 'tree.target_time_maxdepth', 'with target_integration_time = Some(t) the doubling loop of nuts::draw can run more than options.maxdepth = %d times (unwinding assertion failed at %s): the derived depth limit is not capped by maxdepth' % (D, e),
                         model={'maxdepth': D, 'target_time/step_size': '>= 2^(maxdepth+1)'})
            continue
        rep.absorb_vm(H.vm); rep.paths += len(outs)
        bad = [o for o in outs if o['kind'] == 'ret' and o['result'] == 'Ok' and o['depth'] > D]
        pan = [o for o in outs if o['kind'] == 'panic']
        name += ' on all %d paths' % len(outs)
        if bad:
            o = bad[0]
            rep.violated(name, 'tree.target_time_maxdepth', 'with target_integration_time set the tree reaches depth %d > maxdepth %d (dirs %s, pc %s)' % (o['depth'], D, o['dirs'], [str(c) for c in o['pc'][-6:]]),
                         model={'dirs': list(o['dirs']), 'pc': [str(c) for c in o['pc'][-8:]]})
        else: rep.holds(name)
        # the unwrap() of to_u64 can only fail for NaN/negative/huge values of log2(max_steps): reported as a cover, not claimed
        rep.notes.append('target_time: %d paths, %d panic paths (to_u64().unwrap() on a non-representable log2 value: requires NaN/inf, outside the R policy)' % (len(outs), len(pan)))
