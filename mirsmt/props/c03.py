"""C03 - every draw is a real trajectory state and its statistics describe it (DESIGN section 4, C03)."""
import time
import z3
from ..driver import load_mir, REPO
from ..layout import Layouts
from ..treecheck import explore, check_paths
from ..tree import TreeHarness

def run(rep):
    mir = load_mir(rep); L = Layouts(REPO)
    DMAX = 3 if rep.tier == 'quick' else 5
    rep.bounds = {'maxdepth': '0..=%d' % DMAX, 'mindepth': '0..=maxdepth', 'faults': 'every leapfrog may be ok / divergent / unrecoverable (symbolic per site)',
                  'weights': 'arbitrary w[s] > 0 per site (reals)', 'u_turn': 'arbitrary bit per ordered pair of sites', 'histories': 'one transition from an arbitrary chain state'}
    rep.assumptions += ['Hamiltonian/Collector/Math/RNG are the environment: leapfrog from site s in direction +-1 yields site s+-1 (or a fault), is_turning(a,b) is an arbitrary symmetric-by-index bit, every random word is arbitrary',
                        'State handles are abstract (clone = alias); the pool protocol itself is decided separately (engine K)',
                        'merge_into outcomes are merged (ite) instead of forked: exact, no path dropped',
                        'logaddexp(ln a, ln b) = ln(a+b), ln monotone, exp(ln a - ln b) = a/b (R policy, log-weight normal form)']
    rep.outside += ['histories longer than one transition', 'MCLMC (C18)', 'maxdepth > %d' % DMAX, 'floating-point rounding of weights']
    import multiprocessing as mp, os
    jobs = [(mir.path, D, mind, rep.tier, rep.seed, DMAX) for D in range(0, DMAX + 1) for mind in range(0, D + 1)]
    jobs.sort(key=lambda j: -j[1])
    with mp.Pool(min(16, os.cpu_count() or 4)) as pool: results = pool.starmap(_tree_job, jobs)
    for sub in results: merge_report(rep, sub)
    # dim = 0: returns the start with depth 0 and no leapfrog
    H, outs = explore(mir, L, 2, dim=0)
    ok = len(outs) == 1 and outs[0]['kind'] == 'ret' and outs[0]['result'] == 'Ok' and outs[0]['depth'] == 0 and outs[0]['nleap'] == 0 and not z3.is_expr(outs[0]['draw_sid']) and outs[0]['draw_sid'] == 0
    rep.absorb_vm(H.vm); rep.paths += len(outs)
    if ok: rep.holds('C03 dim=0: start returned, depth 0, no leapfrog')
    else: rep.violated('C03 dim=0', 'tree.dim0', 'dim = 0 does not return the start with depth 0: %r' % ([(o['kind'], o.get('depth'), o['nleap']) for o in outs],))
    # at least one leapfrog when dim > 0 and maxdepth >= 1
    H, outs = explore(mir, L, 1, faults=True); rep.absorb_vm(H.vm)
    if all(o['nleap'] >= 1 for o in outs): rep.holds('C03 >= 1 integration step when dim > 0 and maxdepth >= 1')
    else: rep.violated('C03 at least one step', 'tree.one_step', 'a trajectory with maxdepth >= 1 integrates no step')
    target_time(rep, mir, L)
    from .pool import pool_scripts
    from ..driver import parts
    parts(rep, [lambda: pool_scripts(rep, mir, L, 5 if rep.tier == 'quick' else 7), lambda: chain_draw(rep, mir, L), lambda: native_tree_stats(rep)])

def merge_report(rep, sub):
    rep.obligations += sub.obligations; rep.covers += sub.covers; rep.violations += sub.violations; rep.errors += sub.errors
    rep.functions |= sub.functions; rep.paths += sub.paths; rep.stmts += sub.stmts; rep.feas_queries += sub.feas_queries; rep.solver_s += sub.solver_s
    for s_ in sub.samples: rep.sample(s_)
    for n_ in sub.notes:
        if n_ not in rep.notes: rep.notes.append(n_)

def _tree_job(mirpath, D, mind, tier, seed, DMAX):
    from ..driver import Report
    from ..mir import Mir
    from ..treecheck import path_code
    rep = Report('C03', tier, seed); mir = Mir(mirpath, REPO); L = Layouts(REPO)
    try:
        t0 = time.time()
        H, outs = explore(mir, L, D, mindepth=mind, faults=True)
        nv, nob = check_paths(rep, 'C03 maxdepth=%d mindepth=%d' % (D, mind), H, outs, D, mind, True)
        rep.absorb_vm(H.vm)
        if nv == 0: rep.holds('C03 tree: draw in accepted trajectory, bounds, exact termination, momentum refresh once - maxdepth=%d mindepth=%d (%d paths, %d sub-obligations)' % (D, mind, len(outs), nob), time.time() - t0)
        if D == 2 and mind == 0:
            for o in outs[:3]: rep.sample({'dirs': o['dirs'], 'leapfrogs': o['leapfrogs'], 'depth': o.get('depth'), 'result': o.get('result'), 'draw': str(o.get('draw_sid'))[:200], 'pc': [str(c) for c in o['pc'][-3:]]})
        if D == DMAX and mind == 0:
            kinds = {path_code(o)[1] for o in outs if o['kind'] != 'panic'}
            for k in ('maxdepth', 'turn_acc', 'turn_rej', 'div', 'err'): rep.cover('C03 stop reason reachable: ' + k, k in kinds)
    except Exception as e:
        from ..vm import BoundExceeded
        if isinstance(e, BoundExceeded):
            rep.violated('C03 maxdepth=%d mindepth=%d: the doubling loop terminates' % (D, mind), 'tree.loop_bound', 'the doubling loop of nuts::draw runs more than maxdepth = %d times (unwinding assertion failed at %s): the tree never reaches maxdepth / the depth does not advance' % (D, e), model={'maxdepth': D, 'mindepth': mind})
        else:
            import traceback; traceback.print_exc()
            rep.errors.append('tree job D=%d mindepth=%d: %s: %s' % (D, mind, type(e).__name__, str(e)[:200]))
    for v in rep.violations:
        if v.get('model') is not None: v['model'] = __import__('json').loads(__import__('json').dumps(v['model'], default=str))
    rep.functions = set(rep.functions)
    return rep

def target_time(rep, mir, L):
    """target_integration_time = Some(t): the derived depth limits never exceed options.maxdepth (loop-free part of draw)"""
    from ..vm import SOME, Struct
    from ..alg import Fl
    from ..treecheck import path_code
    for D in (1, 2):
        H = TreeHarness(mir, L, D, faults=False)
        A = H.A
        def opts(m, H=H, A=A):
            return L.make('NutsOptions', {'maxdepth': H.maxdepth, 'mindepth': 0, 'check_turning': True, 'store_divergences': False,
                                          'target_integration_time': SOME(A.fresh('target_time')), 'extra_doublings': 0, 'max_energy_error': A.fresh('max_energy_error')})
        H.options = opts
        H.vm.add_model(r'^<H as Hamiltonian<M>>::step_size$', lambda vm, m, c, a: [(m, 'ret', A.fresh('step_size'))])
        # f64 -> u64 via num_traits::ToPrimitive: Some(trunc) when representable; log2/ceil/floor are uninterpreted (any value)
        def to_u64(vm, m, c, a):
            x = a[0]
            while not isinstance(x, Fl): x = vm.read_at(m, x.cell, x.path)
            k = m.fresh_id(); v = z3.Int('to_u64_%d' % k)
            outs = []
            m2 = m.clone(); m2.pc += [v >= 0, v < 2 ** 64]; outs.append((m2, 'ret', SOME(v)))
            outs.append((m, 'ret', Struct((), 'None') if False else __import__('mirsmt.vm', fromlist=['NONE']).NONE()))
            return outs
        H.vm.add_model(r'^<f64 as ToPrimitive>::to_u64$', to_u64)
        H.vm.loop_bound = D + 2          # unwinding assertion: the doubling loop header is entered at most maxdepth+1 times
        name = 'C03 target_integration_time=Some(t): depth <= options.maxdepth=%d' % D
        from ..vm import BoundExceeded
        try:
            outs = [H.summarize(*o) for o in H.run_draw([z3.Real('target_time') > 0, z3.Real('step_size') > 0])]
        except BoundExceeded as e:
            rep.absorb_vm(H.vm)
            rep.violated(name, 'tree.target_time_maxdepth', 'with target_integration_time = Some(t) the doubling loop of nuts::draw can run more than options.maxdepth = %d times (unwinding assertion failed at %s): the derived depth limit is not capped by maxdepth' % (D, e),
                         model={'maxdepth': D, 'target_time/step_size': '>= 2^(maxdepth+1)'})
            continue
        rep.absorb_vm(H.vm); rep.paths += len(outs)
        bad = [o for o in outs if o['kind'] == 'ret' and o['result'] == 'Ok' and o['depth'] > D]
        pan = [o for o in outs if o['kind'] == 'panic']
        name += ' on all %d paths' % len(outs)
        if bad:
            o = bad[0]
            rep.violated(name, 'tree.target_time_maxdepth', 'with target_integration_time set the tree reaches depth %d > maxdepth %d (dirs %s, pc %s)' % (o['depth'], D, o['dirs'], [str(c) for c in o['pc'][-6:]]),
                         model={'dirs': list(o['dirs']), 'pc': [str(c) for c in o['pc'][-8:]]})
        else: rep.holds(name)
        # the unwrap() of to_u64 can only fail for NaN/negative/huge values of log2(max_steps): reported as a cover, not claimed
        rep.notes.append('target_time: %d paths, %d panic paths (to_u64().unwrap() on a non-representable log2 value: requires NaN/inf, outside the R policy)' % (len(outs), len(pan)))

def chain_draw(rep, mir, L):
    """C03(4): NutsChain::draw returns the position of the state the tree returned, adapts with it and the pre-increment draw counter, stores it as the
    start of the next trajectory together with its SampleInfo, and reports diverging/draw/chain from them; an Err of the tree changes nothing"""
    from ..vm import VM, Machine, Struct, Enum, Seq, Ref, Opaque, UNIT, NONE, SOME, OK, ERR, ret
    from ..alg import RealAlg
    from ..mathenv import install_misc
    A = RealAlg(); vm = VM(mir, A); install_misc(vm)
    fn = mir.method('NutsChain', 'Chain', 'draw'); bad = []; n = 0
    for div in (True, False):
        for ok in (True, False):
            m = Machine(); m.ghost['events'] = []
            new_state = Struct(('returned state',), 'StateTok'); old_state = Struct(('previous state',), 'StateTok')
            info = L.make('SampleInfo', {'depth': z3.Int('depth'), 'divergence_info': SOME(Struct((), 'DivergenceInfo')) if div else NONE(), 'reached_maxdepth': z3.Bool('maxd')})
            def tree_draw(vm, m, c, a, ok=ok, info=info):
                init = vm.read_at(m, a[1].cell, a[1].path); m.log('events', ('tree_draw', init.f[0]))
                return ret(m, OK(Struct((new_state, info))) if ok else Enum(1, 'Err', (Struct((), 'NutsError'),), 'Result'))
            vm.models = [x for x in vm.models if x[0].pattern != r'^draw::<']
            vm.add_model(r'^draw::<', tree_draw)
            vm.add_model(r'^RefCell::<M>::borrow_mut$', lambda vm, m, c, a: ret(m, Struct((Ref(m.ghost['math']),), 'RefMut')))
            vm.add_model(r'^<RefMut<.*> as DerefMut>::deref_mut$', lambda vm, m, c, a: ret(m, vm.read_at(m, a[0].cell, a[0].path).f[0]))
            vm.add_model(r'^<M as Math>::dim$', lambda vm, m, c, a: ret(m, 2))
            vm.add_model(r'^std::vec::from_elem::<f64>$', lambda vm, m, c, a: ret(m, Seq([a[0]] * a[1])))
            def write_position(vm, m, c, a):
                st = vm.read_at(m, a[0].cell, a[0].path); m.log('events', ('write_position', st.f[0])); return ret(m, UNIT)
            vm.add_model(r'::write_position$', write_position)
            vm.add_model(r'^<Vec<f64> as Into<Box<\[f64\]>>>::into$', lambda vm, m, c, a: ret(m, Struct((Struct((__import__('mirsmt.vm', fromlist=['SliceRef']).SliceRef(m.alloc(a[0]), (), 0, len(a[0].items)),)), UNIT), 'Box')))
            def adapt(vm, m, c, a):
                st = vm.read_at(m, a[6].cell, a[6].path); m.log('events', ('adapt', a[4], st.f[0])); return ret(m, OK(UNIT))
            vm.add_model(r'^<A as AdaptStrategy<M>>::adapt::<R>$', adapt)
            vm.add_model(r'^<A as AdaptStrategy<M>>::is_tuning$', lambda vm, m, c, a: ret(m, z3.Bool('tuning_after_adapt') if any(e[0] == 'adapt' for e in m.ghost['events']) else z3.Bool('tuning_before_adapt')))
            vm.add_model(r'^<A as AdaptStrategy<M>>::last_num_steps$', lambda vm, m, c, a: ret(m, z3.Int('num_steps')))
            vm.add_model(r' as Hamiltonian<M>>::step_size$', lambda vm, m, c, a: ret(m, A.fresh('step_size')))
            m.ghost['math'] = m.alloc(Opaque('math'))
            chain = {f: Opaque(f) for f in L.fields('NutsChain')}
            dc = z3.Int('draw_count'); chain.update({'state': old_state, 'last_info': NONE(), 'chain': z3.Int('chain_id'), 'draw_count': dc, 'math': Opaque('refcell')})
            cc = m.alloc(L.make('NutsChain', chain)); m.pc += [dc >= 0, dc < 2 ** 40]
            outs = vm.run(fn, [Ref(cc)], m); n += len(outs)
            for (m2, k, v) in outs:
                ev = m2.ghost['events']; after = m2.mem[cc]; g = lambda f: L.get('NutsChain', after, f)
                if k != 'ret': bad.append(('NutsChain::draw panics', str(v)[:100])); continue
                td = [e for e in ev if e[0] == 'tree_draw']
                if len(td) != 1 or td[0][1] != 'previous state': bad.append(('the trajectory does not start from the stored state of the previous draw', ev))
                if not ok:
                    if v.name != 'Err': bad.append(('an Err of the tree is swallowed',))
                    if g('state').f[0] != 'previous state' or not z3.eq(g('draw_count') + 0, dc + 0): bad.append(('a failed draw changes the chain state',))
                    continue
                if v.name != 'Ok': bad.append(('draw returns Err although the tree succeeded',)); continue
                pos, prog = v.f[0].f; gp = lambda f: L.get('Progress', prog, f)
                wp = [e for e in ev if e[0] == 'write_position']; ad = [e for e in ev if e[0] == 'adapt']
                if len(wp) != 1 or wp[0][1] != 'returned state': bad.append(('the returned position is not that of the state the tree returned', ev))
                if len(ad) != 1 or ad[0][2] != 'returned state' or not z3.eq(z3.simplify(ad[0][1] + 0), z3.simplify(dc + 0)): bad.append(('adapt() is not called once with the returned state and the current draw index', ev))
                if g('state').f[0] != 'returned state': bad.append(('the next trajectory would not start from the returned draw',))
                li = g('last_info')
                if li.name != 'Some' or not vm._same(li.f[0], info): bad.append(('last_info is not the SampleInfo of this trajectory',))
                sol = z3.Solver(); sol.add(*m2.pc); sol.add(z3.Or(g('draw_count') != dc + 1, gp('draw') != dc, gp('chain') != z3.Int('chain_id'), gp('num_steps') != z3.Int('num_steps'),
                                                              (gp('tuning') if z3.is_expr(gp('tuning')) else z3.BoolVal(gp('tuning'))) != z3.Bool('tuning_after_adapt')))
                if sol.check() != z3.unsat: bad.append(('draw counter / Progress fields wrong', str(sol.model())[:200]))
                dv = gp('diverging')
                if (dv is True) != div: bad.append(('Progress.diverging differs from the presence of divergence info', div, str(dv)))
    rep.paths += n; rep.absorb_vm(vm)
    if bad: rep.violated('C03.4 NutsChain::draw bookkeeping', 'chain_draw', 'NutsChain::draw: %s' % (bad[0],), model={'problems': [str(b)[:300] for b in bad[:5]]})
    else: rep.holds('C03.4 NutsChain::draw: position/adapt/next start/last_info all refer to the state and info the tree returned; draw counter +1; Progress fields from them; tree Err leaves the chain unchanged (%d paths)' % n)


def native_tree_stats(rep):
    """model validation through the real build (not a deciding step): DiagNuts chains with a fixed step size over a matrix of maxdepth / mindepth / step
    sizes must show, draw by draw, what the tree result implies: depth <= maxdepth, 2^depth - 1 <= steps <= 2^(depth+1) - 1, |index| <= 2^depth - 1,
    index 0 iff the position did not change, maxdepth flag only at depth = maxdepth, depth >= mindepth unless the draw diverged"""
    from .. import native
    cfgs = [(1, 0, 0.9), (3, 1, 0.9), (4, 0, 0.3)] if rep.tier == 'quick' else [(D, mn, st) for D in (1, 2, 3, 5) for mn in (0, 1, 2) if mn <= D for st in (0.3, 0.9, 1.6)]
    n = 0; bad = []
    for (D, mn, st) in cfgs:
        r = native.run('tree_stats', {'maxdepth': D, 'mindepth': mn, 'step': st, 'num_draws': 150, 'seed': 11 + D}, timeout=120)
        if not r or not r.get('confirmed'): rep.notes.append('C03.V native tree statistics unavailable for %s: %s' % ((D, mn, st), str(r)[:100])); continue
        for i in range(len(r['depth'])):
            d, stp, idx, flag, div, moved = r['depth'][i], r['num_steps'][i], r['index_in_trajectory'][i], r['maxdepth_reached'][i], r['diverging'][i], r['moved'][i]; n += 1
            probs = []
            if d > D: probs.append('depth > maxdepth')
            if not (2 ** d - 1 <= stp <= 2 ** (d + 1) - 1) and not div: probs.append('steps outside [2^depth - 1, 2^(depth+1) - 1]')
            if abs(idx) > 2 ** d - 1: probs.append('|index| > 2^depth - 1')
            if (idx == 0) != (not moved): probs.append('index 0 does not coincide with an unchanged position')
            if flag and d != D: probs.append('maxdepth flag below maxdepth')
            if not div and d < mn: probs.append('stopped below mindepth without a divergence')
            if probs: bad.append({'config': (D, mn, st), 'draw': i, 'problems': probs, 'depth': d, 'steps': stp, 'index': idx}); break
    rep.validated += n
    if bad: rep.validation_mismatch += bad; rep.errors.append('C03.V a native run contradicts the tree result: %s' % str(bad[0])[:300])
    elif n: rep.notes.append('C03.V %d draws of native fixed-step DiagNuts chains (%d configurations) satisfy the depth / step-count / index bounds and flag rules decided symbolically' % (n, len(cfgs)))
    rep.cover('C03.V native tree statistics compared', n > 0)
