"""C16 - statistics schema and per-draw values are mutually consistent (DESIGN section 4, C16)."""
import re, time, itertools
import z3
from ..driver import load_mir, REPO
from ..layout import Layouts
from ..vm import VM, Machine, Struct, Enum, Seq, Ref, SliceRef, Str, Opaque, UNIT, NONE, SOME, OK, ERR, ret, VMError, Unmodelled
from ..alg import RealAlg, Fl
from ..mathenv import MathEnv, install_misc
from ..intrinsics import deref_val, slice_items

D = 2
# concrete statistics types of the six presets (generic arguments of the derive-generated impls, per struct)
STEP = ('Stats', 'stepsize/adapt.rs'); DIAGADAPT = ('Stats', 'transform/adapt/diagonal.rs'); UNITT = ('()', None)
PRESETS = {
    'DiagNuts': ('NutsStats', {'NutsStats': {'H': ('HamiltonianStats', None), 'A': ('GlobalStrategyStats', None), 'D': ('PointStats', None)}, 'HamiltonianStats': {'S': ('DiagMassMatrixStats', None)}, 'GlobalStrategyStats': {'S': STEP, 'M': DIAGADAPT}}),
    'LowRankNuts': ('NutsStats', {'NutsStats': {'H': ('HamiltonianStats', None), 'A': ('GlobalStrategyStats', None), 'D': ('PointStats', None)}, 'HamiltonianStats': {'S': ('MatrixStats', None)}, 'GlobalStrategyStats': {'S': STEP, 'M': UNITT}}),
    'FlowNuts': ('NutsStats', {'NutsStats': {'H': ('HamiltonianStats', None), 'A': ('Stats', 'external_adapt_strategy.rs'), 'D': ('PointStats', None)}, 'HamiltonianStats': {'S': ('ExternalTransformationStats', None)}, 'Stats@external_adapt_strategy': {'S': STEP}}),
    'DiagMclmc': ('MclmcStats', {'MclmcStats': {'H': ('HamiltonianStats', None), 'A': ('GlobalStrategyStats', None), 'Pt': ('PointStats', None)}, 'HamiltonianStats': {'S': ('DiagMassMatrixStats', None)}, 'GlobalStrategyStats': {'S': STEP, 'M': DIAGADAPT}}),
    'LowRankMclmc': ('MclmcStats', {'MclmcStats': {'H': ('HamiltonianStats', None), 'A': ('GlobalStrategyStats', None), 'Pt': ('PointStats', None)}, 'HamiltonianStats': {'S': ('MatrixStats', None)}, 'GlobalStrategyStats': {'S': STEP, 'M': UNITT}}),
    'FlowMclmc': ('MclmcStats', {'MclmcStats': {'H': ('HamiltonianStats', None), 'A': ('Stats', 'external_adapt_strategy.rs'), 'Pt': ('PointStats', None)}, 'HamiltonianStats': {'S': ('ExternalTransformationStats', None)}, 'Stats@external_adapt_strategy': {'S': STEP}}),
}
ITEM_OF_VALUE = {'U64': ('U64', True), 'ScalarU64': ('U64', False), 'I64': ('I64', True), 'ScalarI64': ('I64', False), 'F64': ('F64', True), 'ScalarF64': ('F64', False), 'F32': ('F32', True), 'ScalarF32': ('F32', False),
                 'Bool': ('Bool', True), 'ScalarBool': ('Bool', False), 'ScalarString': ('String', False), 'Strings': ('String', True), 'DateTime64': ('DateTime64', True), 'TimeDelta64': ('TimeDelta64', True)}

def struct_fields_with_types(L, name, file=None):
    hits = L.structs.get(name, [])
    if file: hits = [h for h in hits if file in h[0]]
    if len(hits) != 1: raise KeyError('struct %s (%s): %d definitions' % (name, file, len(hits)))
    return hits[0][1]

class Builder:
    """symbolic values of statistics structs from their source definitions"""
    def __init__(self, L, A, inst, mode):
        self.L = L; self.A = A; self.inst = inst; self.mode = mode; self.n = 0; self.opt_count = 0
    def fresh(self): self.n += 1; return self.n
    def value(self, ty, scope):
        ty = ty.strip(); A = self.A
        if ty == 'bool': return z3.Bool('b%d' % self.fresh())
        if ty in ('u64', 'i64', 'usize'): return z3.Int('i%d' % self.fresh())
        if ty == 'f64': return A.fresh('f%d' % self.fresh())
        if ty == 'String': return Str('message %d' % self.fresh())
        if ty == '()': return UNIT
        if ty.startswith('PhantomData') or ty.startswith('std::marker::PhantomData'): return Struct((), 'PhantomData')
        m = re.match(r'^Option<(.*)>$', ty)
        if m:
            k = self.opt_count; self.opt_count += 1
            some = self.mode == 'all' or (isinstance(self.mode, int) and self.mode == k)
            return SOME(self.value(m.group(1), scope)) if some else NONE()
        m = re.match(r'^Vec<(.*)>$', ty)
        if m: return Seq([self.value(m.group(1), scope) for _ in range(D)])
        params = self.inst.get(scope, {})
        if ty in params:
            nm, file = params[ty]
            return UNIT if nm == '()' else self.struct(nm, file)
        if ty in self.L.structs: return self.struct(ty, None)
        raise VMError('cannot build a value of type %s (in %s)' % (ty, scope))
    def struct(self, name, file):
        fs = struct_fields_with_types(self.L, name, file)
        scope = name if not (file and name == 'Stats' and 'external' in file) else 'Stats@external_adapt_strategy'
        return Struct([self.value(t, scope) for (_, t) in fs], name)

def install_storable_env(vm):
    en = vm.enums['Value']
    def val_from(vm, m, c, a):
        mm = re.match(r'^<Value as From<(.*)>>::from$', c); t = mm.group(1)
        name = {'u64': 'ScalarU64', 'i64': 'ScalarI64', 'f64': 'ScalarF64', 'f32': 'ScalarF32', 'bool': 'ScalarBool', 'Vec<u64>': 'U64', 'Vec<i64>': 'I64', 'Vec<f64>': 'F64', 'Vec<f32>': 'F32', 'Vec<bool>': 'Bool'}[t]
        return ret(m, Enum(en.index(name), name, (a[0],), 'Value'))
    vm.add_model(r'^<Value as From<.*>>::from$', val_from)
    vm.add_model(r'^<std::string::String as Clone>::clone$', lambda vm, m, c, a: ret(m, deref_val(vm, m, a[0])))
    # the unit statistics type (impl in nuts-storable, not part of this crate's MIR): no items
    vm.add_model(r'^<\(\) as Storable<P>>::(names|get_all)$', lambda vm, m, c, a: ret(m, Seq(())))
    vm.add_model(r'^<\(\) as Storable<P>>::event_dim$', lambda vm, m, c, a: ret(m, NONE()))

def resolve_unit(vm):
    """`<M as Storable<P>>::x` with M instantiated to () is routed to the unit models"""
    orig = vm.call
    def call(m, callee, args, span=None):
        mm = re.match(r'^<(\w+) as Storable<P>>::(\w+)$', callee)
        if mm and vm.cur_fn is not None and vm.cur_fn.impl_at:
            scope = vm.mir.impl_info(*vm.cur_fn.impl_at)[1]
            if scope == 'Stats' and 'external_adapt' in vm.cur_fn.name: scope = 'Stats@external_adapt_strategy'
            tgt = vm.inst_by_struct.get(scope, {}).get(mm.group(1))
            if tgt is not None and tgt[0] == '()': return orig(m, '<() as Storable<P>>::%s' % mm.group(2), args, span)
        return orig(m, callee, args, span)
    vm.call = call

def derived_impls(mir):
    out = {}
    for name, fn in mir.fns.items():
        mm = re.match(r'^(.*<impl at (src/[\w/.]+):(\d+):\d+: \d+:\d+>)::names$', name)
        if mm and fn.args and fn.args[0][1] == '&P':
            trait, sname, _ = mir.impl_info(mm.group(2), int(mm.group(3)))
            if trait == '<derive>': out[(sname, mm.group(2))] = mm.group(1)
    return out

def run(rep):
    mir = load_mir(rep); L = Layouts(REPO)
    rep.bounds = {'dimension': D, 'draws': 'one draw from an arbitrary state', 'option patterns': 'all optional fields present / all absent / each one alone', 'presets': list(PRESETS)}
    rep.assumptions += ['the unit statistics type () has no items (nuts-storable impl, read from its source)', 'Math environment: box_array yields a vector of length d']
    rep.outside += ['storage backends (C14)', 'histories longer than one draw', 'custom ExpandedVector statistics of user models']
    impls = derived_impls(mir)
    rep.cover('C16 all twelve derived Storable impls found in the MIR', len(impls) >= 12)
    from ..driver import parts
    parts(rep, [lambda: derive_consistency(rep, mir, L, impls), lambda: divergence_stats(rep, mir, L), lambda: transformation_update_fields(rep, mir, L),
                lambda: point_stats(rep, mir, L), lambda: stats_options(rep, mir, L), lambda: counters(rep, mir, L), lambda: update_event_tracking(rep, mir, L)])

def mk_vm(mir, L, inst_by_struct=None):
    A = RealAlg(); vm = VM(mir, A, inst={}); install_misc(vm); install_storable_env(vm); MathEnv(vm, D, 'uf', L)
    if inst_by_struct:
        ibs = {}
        for k, v in inst_by_struct.items(): ibs[k.split('@')[0] if '@' not in k else k] = v
        vm.inst_by_struct = {}
        for k, v in inst_by_struct.items():
            vm.inst_by_struct[k] = v
            if '@' in k: vm.inst_by_struct.setdefault(k.split('@')[0], {}).update(v)
        resolve_unit(vm)
    return A, vm

def strs(vm, m, v):
    return [deref_val(vm, m, x).s for x in v.items]

def derive_consistency(rep, mir, L, impls):
    """names / item_type / dims / event_dim / get_all of every derived impl agree (for each concrete preset type)"""
    dims_ok = {'unconstrained_parameter'}
    for preset, (top, inst) in PRESETS.items():
        t0 = time.time(); bad = []; nrun = 0; names_seen = None
        prefix = [p for (sn, f), p in impls.items() if sn == top]
        if len(prefix) != 1: rep.unknown('C16.A %s' % preset, 'top-level stats struct %s not found' % top); continue
        prefix = prefix[0]
        nopt = None
        modes = ['all', 'none']
        k = 0
        while True:
            mode = modes[k] if k < len(modes) else None
            if mode is None: break
            A, vm = mk_vm(mir, L, inst)
            b = Builder(L, A, inst, mode); val = b.struct(top, None)
            if nopt is None: nopt = b.opt_count; modes += list(range(nopt))
            m = Machine(); parent = Ref(m.alloc(Opaque('parent')))
            try:
                (m1, k1, nm) = vm.run(mir.get(prefix + '::names'), [parent], m)[0]
                names = strs(vm, m1, nm)
                sc = m1.alloc(val)
                outs = vm.merge_outcomes(vm.run(mir.get(prefix + '::get_all'), [Ref(sc), parent], m1))
                if len(outs) != 1 or outs[0][1] != 'ret': bad.append(('get_all panics or forks', str([(kk, str(vv)[:80]) for (_, kk, vv) in outs]))); k += 1; continue
                (m2, _, got) = outs[0]; nrun += 1
                pairs = [(deref_val(vm, m2, p.f[0]).s, p.f[1]) for p in got.items]
                if [p[0] for p in pairs] != names: bad.append(('get_all names/order differ from names()', names, [p[0] for p in pairs]))
                if len(set(names)) != len(names):
                    dup = sorted({x for x in names if names.count(x) > 1}); note = 'observation (not part of C16 as stated): %s declares duplicate statistic names %s' % (preset, dup)
                    if note not in rep.notes: rep.notes.append(note)
                names_seen = names
                for (nme, ov) in pairs:
                    it = vm.run(mir.get(prefix + '::item_type'), [parent, Str(nme)], m2.clone())
                    dm = vm.run(mir.get(prefix + '::dims'), [parent, Str(nme)], m2.clone())
                    evd = vm.run(mir.get(prefix + '::event_dim'), [parent, Str(nme)], m2.clone())
                    if any(o[1] != 'ret' for o in it + dm + evd): bad.append(('item_type/dims/event_dim panics for a declared name', nme)); continue
                    ity = it[0][2].name; dnames = strs(vm, dm[0][0], dm[0][2]); ev = evd[0][2]
                    if ov.name == 'Some':
                        v = ov.f[0]; want, isvec = ITEM_OF_VALUE[v.name]
                        if want != ity: bad.append(('value variant %s does not match declared item type %s' % (v.name, ity), nme))
                        if isvec != bool(dnames): bad.append(('value shape (vector=%s) does not match declared dims %s' % (isvec, dnames), nme))
                        if isvec and len(v.f[-1].items) != D: bad.append(('vector length differs from the declared dimension', nme))
                    for dn in dnames:
                        if dn not in dims_ok: bad.append(('unknown dimension name', nme, dn))
            except (VMError, Unmodelled, KeyError) as e:
                rep.unknown('C16.A %s mode %s' % (preset, mode), '%s: %s' % (type(e).__name__, str(e)[:300])); break
            rep.absorb_vm(vm); k += 1
        rep.paths += nrun
        name = 'C16.A %s: get_all yields exactly names() in order; every present value has the declared type and shape (%d option patterns, %d statistics)' % (preset, nrun, len(names_seen or []))
        if bad: rep.violated(name, 'derive.%s' % preset, 'schema / values inconsistent for %s: %s' % (preset, bad[0]), model={'problems': [str(b)[:300] for b in bad[:6]]})
        elif nrun: rep.holds(name, time.time() - t0)
        if preset == 'DiagNuts' and names_seen: rep.sample({'preset': preset, 'names': names_seen})

def divergence_stats(rep, mir, L):
    """DivergenceStats::from: divergence fields exactly on divergent draws; identifying fields on every such draw"""
    A, vm = mk_vm(mir, L)
    fn = [f for n, f in mir.fns.items() if n.endswith('::from') and 'hamiltonian::<impl' in n and '{closure' not in n and 'DivergenceStats' in f.parse().ret]
    if len(fn) != 1: rep.unknown('C16.B DivergenceStats::from not found'); return
    fn = fn[0]
    vm.add_model(r'^<.* as ToString>::to_string$|^<str as ToString>::to_string$|^alloc::fmt::format|^std::fmt::format|^format$', lambda vm, m, c, a: ret(m, Str('formatted message')))
    vm.add_model(r'^<Box<\[f64\]> as AsRef<\[f64\]>>::as_ref$', lambda vm, m, c, a: ret(m, deref_val(vm, m, a[0]).f[0].f[0]))
    vm.add_model(r'is_nan$', lambda vm, m, c, a: [(m2, 'ret', b) for b in (True, False) for m2 in [m.clone()]])
    bad = []; n = 0
    def boxed(m, tag): return Struct((Struct((SliceRef(m.alloc(Seq([A.fresh('%s_%d' % (tag, i)) for i in range(D)])), (), 0, D),)), UNIT), 'Box')
    for has_info, store, pattern in itertools.product((True, False), (True, False), ('all', 'none', 'err')):
        m = Machine()
        if has_info:
            some = pattern in ('all', 'err')
            fields = {'start_momentum': SOME(boxed(m, 'mom')) if pattern == 'all' else NONE(), 'start_location': SOME(boxed(m, 'loc')) if some else NONE(), 'start_gradient': SOME(boxed(m, 'g')) if some else NONE(),
                      'end_location': SOME(boxed(m, 'end')) if pattern == 'all' else NONE(), 'energy_error': SOME(A.fresh('ee')) if pattern == 'all' else NONE(), 'end_idx_in_trajectory': SOME(z3.Int('ei')) if pattern == 'all' else NONE(),
                      'start_idx_in_trajectory': SOME(z3.Int('si')) if some else NONE(), 'logp_function_error': SOME(Struct((Opaque('err'),), 'Arc')) if pattern == 'err' else NONE()}
            info = SOME(Ref(m.alloc(L.make('DivergenceInfo', fields))))
        else:
            if pattern != 'all': continue
            info = NONE()
        opts = L.make('DivergenceStatsOptions', {'store_divergences': store})
        outs = vm.run(fn, [Struct((info, opts, z3.Int('draw')))], m); n += len(outs)
        for (m2, k, v) in outs:
            if k != 'ret': bad.append(('DivergenceStats::from panics', str(v)[:200])); continue
            g = lambda f: L.get('DivergenceStats', v, f)
            dv = g('diverging')
            if (dv is True) != has_info: bad.append(('diverging flag differs from the presence of a divergence', has_info, str(dv)))
            for f in ('divergence_draw', 'divergence_message'):
                if (g(f).name == 'Some') != has_info: bad.append(('identifying event field %s present=%s on a draw with divergence=%s' % (f, g(f).name == 'Some', has_info),))
            for f in ('divergence_start', 'divergence_start_gradient', 'divergence_end', 'divergence_momentum', 'divergence_energy_error'):
                if g(f).name == 'Some' and not has_info: bad.append(('event field %s present on a non-divergent draw' % f,))
            if has_info and g('divergence_draw').name == 'Some' and not z3.eq(z3.simplify(g('divergence_draw').f[0] + 0), z3.simplify(z3.Int('draw') + 0)): bad.append(('divergence_draw is not the draw counter',))
            for f in ('divergence_start', 'divergence_start_gradient', 'divergence_end', 'divergence_momentum'):
                if g(f).name == 'Some' and not store: bad.append(('%s stored although store_divergences is off' % f,))
                if g(f).name == 'Some' and len(g(f).f[0].items) != D: bad.append(('%s has the wrong length' % f,))
    rep.paths += n; rep.absorb_vm(vm)
    if bad: rep.violated('C16.B divergence fields', 'divergence_stats', 'divergence statistics inconsistent: %s' % (bad[0],), model={'problems': [str(b) for b in bad[:6]]})
    else: rep.holds('C16.B DivergenceStats::from: diverging <=> divergence; divergence_draw and divergence_message present on exactly the divergent draws; other event fields only there, vectors of length d, location fields only with store_divergences (%d paths)' % n)

def transformation_update_fields(rep, mir, L):
    """transformation_update_id present <=> id != last reported id; the other update fields only then"""
    for ty, others in (('DiagMassMatrix', ('mass_matrix_inv', 'transformation_mu')), ('LowRankMassMatrix', ('mass_matrix_eigvals', 'mass_matrix_stds', 'num_eigenvalues'))):
        bad = []; n = 0
        for store in (True, False):
            A, vm = mk_vm(mir, L)
            vm.add_model(r'^<M as Math>::eigs_as_array$', lambda vm, m, c, a: ret(m, Struct((Struct((SliceRef(m.alloc(Seq([A.fresh('ev')])), (), 0, 1),)), UNIT), 'Box')))
            vm.add_model(r'^(std::)?slice::<impl \[f64\]>::into_vec::<.*>$|^<\[f64\]>::into_vec', lambda vm, m, c, a: ret(m, Seq(slice_items(vm, m, a[0].f[0].f[0]))))
            vm.add_model(r'^(std::iter::)?repeat_n::<f64>$', lambda vm, m, c, a: ret(m, __import__('mirsmt.vm', fromlist=['Iter']).Iter([a[0]] * a[1])))
            vm.add_model(r'^<Vec<f64> as Extend<f64>>::extend::<', lambda vm, m, c, a: (vm.write_at(m, a[0].cell, list(a[0].path), Seq(vm.read_at(m, a[0].cell, a[0].path).items + tuple(a[1].items))), ret(m, UNIT))[1])
            fn = mir.method(ty, 'SamplerStats', 'extract_stats')
            m = Machine(); idv, last = z3.Int('id'), z3.Int('last_id')
            diag = L.make('DiagMassMatrix', {'mean': Seq([A.fresh('m%d' % i) for i in range(D)]), 'inv_stds': Seq([A.fresh('is%d' % i) for i in range(D)]), 'stds': Seq([A.fresh('s%d' % i) for i in range(D)]),
                                              'logdet': A.fresh('ld'), 'store_mass_matrix': store, 'id': idv})
            if ty == 'DiagMassMatrix': obj = diag
            else:
                inner = SOME(L.make('InnerMatrix', {'vecs': Opaque('vecs'), 'vals_sqrt': Opaque('vals'), 'vals_sqrt_inv': Opaque('valsinv'), 'logdet_contribution': A.fresh('ldc'), 'mu': Seq([A.fresh('mu%d' % i) for i in range(D)]), 'num_eigenvalues': 1}))
                obj = L.make('LowRankMassMatrix', {'diag': diag, 'inner': inner, 'settings': L.make('LowRankSettings', {'store_mass_matrix': store, 'gamma': A.fresh('gamma'), 'eigval_cutoff': A.fresh('cut')}), 'logdet': A.fresh('ld2'), 'id': idv})
            outs = vm.run(fn, [Ref(m.alloc(obj)), Ref(m.alloc(Opaque('math'))), last], m); n += len(outs); rep.absorb_vm(vm)
            sname = 'DiagMassMatrixStats' if ty == 'DiagMassMatrix' else 'MatrixStats'
            for (m2, k, v) in outs:
                if k != 'ret': bad.append(('extract_stats panics', str(v)[:200])); continue
                uid = L.get(sname, v, 'transformation_update_id')
                s = z3.Solver(); s.add(*m2.pc); s.add((idv != last) != z3.BoolVal(uid.name == 'Some'))
                if s.check() != z3.unsat: bad.append(('transformation_update_id presence differs from "the transformation changed since the last report"', str(s.model())))
                if uid.name == 'Some':
                    s = z3.Solver(); s.add(*m2.pc); s.add(uid.f[0] != idv)
                    if s.check() != z3.unsat: bad.append(('transformation_update_id is not the current id',))
                for f in others:
                    fv = L.get(sname, v, f)
                    if fv.name == 'Some' and uid.name != 'Some': bad.append(('update field %s present on a draw without a transformation update' % f,))
                    if fv.name == 'Some' and f != 'num_eigenvalues' and not store: bad.append(('%s stored although store_mass_matrix is off' % f,))
                    if fv.name == 'Some' and f != 'num_eigenvalues' and len(fv.f[0].items) != D: bad.append(('%s has length %d instead of d=%d' % (f, len(fv.f[0].items), D),))
                    if uid.name == 'Some' and store and fv.name != 'Some': bad.append(('update field %s missing on a transformation update with store_mass_matrix on' % f,))
        rep.paths += n
        if bad: rep.violated('C16.C %s update fields' % ty, 'update_fields.%s' % ty, '%s::extract_stats: %s' % (ty, bad[0]), model={'problems': [str(b)[:300] for b in bad[:6]]})
        else: rep.holds('C16.C %s::extract_stats: transformation_update_id present <=> id changed, other update fields only then (and only with store_mass_matrix), length d (%d paths)' % (ty, n))

def point_stats(rep, mir, L):
    """TransformedPoint::extract_stats: optional vectors present exactly when their option is on; scalars those of the point"""
    fn = mir.method('TransformedPoint', 'SamplerStats', 'extract_stats'); bad = []; n = 0
    vecmod = lambda A: (lambda vm, m, c, a: ret(m, Seq(slice_items(vm, m, a[0].f[0].f[0]))))
    for sg, su, st in itertools.product((True, False), repeat=3):
        A, vm = mk_vm(mir, L); vm.inst['Self'] = ('TransformedPoint', None)
        vm.add_model(r'slice::<impl \[f64\]>::into_vec', vecmod(A))
        m = Machine()
        vals = {n_: Seq([A.fresh('%s_%d' % (n_, i)) for i in range(D)]) for n_ in ('untransformed_position', 'untransformed_gradient', 'transformed_position', 'transformed_gradient', 'velocity')}
        vals.update({'index_in_trajectory': z3.Int('idx'), 'logp': A.fresh('logp'), 'logdet': A.fresh('logdet'), 'kinetic_energy': A.fresh('ke'), 'initial_energy': A.fresh('e0'), 'transform_id': z3.Int('tid'), 'step_size_factor': A.fresh('ssf')})
        pt = L.make('TransformedPoint', vals)
        opt = L.make('TransformedPointStatsOptions', {'store_gradient': sg, 'store_unconstrained': su, 'store_transformed': st})
        outs = vm.run(fn, [Ref(m.alloc(pt)), Ref(m.alloc(Opaque('math'))), opt], m); n += len(outs); rep.absorb_vm(vm)
        for (m2, k, v) in outs:
            if k != 'ret': bad.append(('extract_stats panics', str(v)[:200])); continue
            g = lambda f: L.get('PointStats', v, f)
            for f, on, src in (('unconstrained_draw', su, 'untransformed_position'), ('gradient', sg, 'untransformed_gradient'), ('transformed_position', st, 'transformed_position'), ('transformed_gradient', st, 'transformed_gradient')):
                fv = g(f)
                if (fv.name == 'Some') != on: bad.append(('%s present=%s although its option is %s' % (f, fv.name == 'Some', on), (sg, su, st)))
                elif on and [str(x.v) for x in fv.f[0].items] != [str(x.v) for x in vals[src].items]: bad.append(('%s does not hold the %s of the point' % (f, src),))
            s = z3.Solver(); s.add(g('index_in_trajectory') != z3.Int('idx'))
            chk = [g('index_in_trajectory') != z3.Int('idx'), g('logp').v != z3.Real('logp'), g('energy').v != z3.Real('ke') - (z3.Real('logp') + z3.Real('logdet')),
                   g('energy_error').v != z3.Real('ke') - (z3.Real('logp') + z3.Real('logdet')) - z3.Real('e0'), g('transformation_index') != z3.Int('tid')]
            s = z3.Solver(); s.add(z3.Or(*chk))
            if s.check() != z3.unsat: bad.append(('scalar point statistics (index, logp, energy, energy error, transformation index) are not those of the point', str(s.model())))
    rep.paths += n
    if bad: rep.violated('C16.D point statistics', 'point_stats', 'TransformedPoint::extract_stats: %s' % (bad[0],), model={'problems': [str(b)[:300] for b in bad[:6]]})
    else: rep.holds('C16.D TransformedPoint::extract_stats: optional vectors present exactly when their option is on and equal to the point arrays; logp/energy/energy_error/index are those of the point (%d paths)' % n)

def stats_options(rep, mir, L):
    """every settings preset forwards each store_* flag to the option of the same name"""
    fns = [(n, f) for n, f in mir.fns.items() if re.match(r'^sampler::<impl at src/sampler.rs:\d+:1: \d+:\d+>::stats_options$', n)]
    rep.cover('C16.E six stats_options implementations found', len(fns) == 6)
    bad = []; n = 0
    for name, fn in fns:
        fn.parse(); sty = fn.args[0][1]; sname = 'NutsSettings' if 'NutsSettings' in sty else 'MclmcSettings'
        A, vm = mk_vm(mir, L)
        fields = struct_fields_with_types(L, sname)
        flags = {f: z3.Bool('flag_' + f) for (f, t) in fields if f.startswith('store_')}
        val = Struct([flags.get(f, Opaque(f)) for (f, t) in fields], sname)
        m = Machine(); outs = vm.run(fn, [Ref(m.alloc(val))], m); n += len(outs); rep.absorb_vm(vm)
        for (m2, k, v) in outs:
            if k != 'ret': bad.append((name, 'panics')); continue
            pt = L.get('StatOptions', v, 'point'); dv = L.get('StatOptions', v, 'divergence')
            for f in ('store_gradient', 'store_unconstrained', 'store_transformed'):
                got = L.get('TransformedPointStatsOptions', pt, f)
                if not (z3.is_expr(got) and z3.eq(got, flags[f])): bad.append(('%s: option %s is fed from %s' % (sty, f, got),))
            got = L.get('DivergenceStatsOptions', dv, 'store_divergences')
            if not (z3.is_expr(got) and z3.eq(got, flags['store_divergences'])): bad.append(('%s: option store_divergences is fed from %s' % (sty, got),))
    rep.paths += n
    if bad: rep.violated('C16.E settings flags reach the statistics options', 'stats_options', 'a store_* flag of a settings preset is wired to the wrong option: %s' % (bad[0],), model={'problems': [str(b) for b in bad]})
    else: rep.holds('C16.E all %d stats_options implementations forward store_gradient / store_unconstrained / store_transformed / store_divergences to the option of the same name' % len(fns))

def counters(rep, mir, L):
    """the draw / chain statistics come from the chain counters"""
    bad = []
    for ty, sname in (('NutsChain', 'NutsStats'), ('MclmcChain', 'MclmcStats')):
        fn = mir.method(ty, 'SamplerStats', 'extract_stats'); fn.parse()
        # the aggregate that builds the stats struct must read `chain` and `draw` from self.chain / self.draw_count
        fields = L.fields(ty); ci, di = fields.index('chain'), fields.index('draw_count'); sf = L.fields(sname)
        agg = None
        for bb in fn.blocks:
            for st in fn.stmts(bb):
                if st.kind == 'assign' and st.b[0] == 'aggregate' and st.b[1] == 'adt' and sname in (st.b[2] or ''): agg = st
        if agg is None: rep.unknown('C16.F %s::extract_stats aggregate not found' % ty); continue
        ops = agg.b[3]
        def src_of(op):
            # follow one level of temporaries: `_n = copy ((*_1).k: u64)`
            if op[0] in ('copy', 'move') and not op[1].proj:
                for bb in fn.blocks:
                    for st in fn.stmts(bb):
                        if st.kind == 'assign' and st.a.local == op[1].local and not st.a.proj and st.b[0] == 'use': return st.b[1]
            return op
        for fname, idx in (('chain', ci), ('draw', di)):
            o = src_of(ops[sf.index(fname)])
            ok = o[0] in ('copy', 'move') and len(o[1].proj) == 2 and o[1].proj[0] == ('deref',) and o[1].proj[1][0] == 'field' and o[1].proj[1][1] == idx
            if not ok: bad.append(('%s.%s is not read from the chain counter' % (sname, fname), str(o)))
        rep.functions.add(fn.name)
    if bad: rep.violated('C16.F draw/chain statistics', 'counters', 'draw / chain statistics not taken from the chain counters: %s' % (bad[0],), model={'problems': [str(b) for b in bad]})
    else: rep.holds('C16.F NutsStats / MclmcStats: chain and draw statistics are read from the chain id and draw counter (data-flow on the MIR)')


def update_event_tracking(rep, mir, L):
    """C16.G the "last reported transformation id" that makes update fields appear exactly on draws after which the transformation changed:
    (1) next_stats_options of both mass matrices returns the current id, (2) TransformedHamiltonian::update_stats_options is that value,
    (3) NutsChain / MclmcChain::expanded_draw extract the statistics with the options of the previous draw and then store the new options
    on every successful draw (tuning or not)."""
    from ..vm import OK, ERR, Enum
    bad = []; n = 0
    # (1)
    for ty in ('DiagMassMatrix', 'LowRankMassMatrix'):
        A, vm = mk_vm(mir, L); fn = mir.method(ty, 'Transformation', 'next_stats_options')
        m = Machine(); idv = z3.Int('id')
        if ty == 'DiagMassMatrix': obj = L.make(ty, {'mean': Opaque('m'), 'inv_stds': Opaque('i'), 'stds': Opaque('s'), 'logdet': A.fresh('ld'), 'store_mass_matrix': False, 'id': idv})
        else: obj = L.make(ty, {'diag': Opaque('diag'), 'inner': Opaque('inner'), 'settings': Opaque('settings'), 'logdet': A.fresh('ld2'), 'id': idv})
        outs = vm.run(fn, [Ref(m.alloc(obj)), Ref(m.alloc(Opaque('math'))), z3.Int('last_id')], m); n += len(outs); rep.absorb_vm(vm)
        for (m2, k, v) in outs:
            if k != 'ret': bad.append(('%s::next_stats_options panics' % ty,)); continue
            sol = z3.Solver(); sol.add(*m2.pc); sol.add(v != idv)
            if sol.check() != z3.unsat: bad.append(('%s::next_stats_options does not return the current transformation id' % ty, str(v)))
    # (2)
    A, vm = mk_vm(mir, L); fn = mir.method('TransformedHamiltonian', 'Hamiltonian', 'update_stats_options')
    vm.add_model(r' as Transformation<M>>::next_stats_options$', lambda vm, m, c, a: (m.log('events', ('next', a[2])), ret(m, Struct(('next options',), 'Tok')))[1])
    m = Machine(); m.ghost['events'] = []
    ham = L.make('TransformedHamiltonian', {f: Opaque(f) for f in L.fields('TransformedHamiltonian')})
    cur = Struct(('current options',), 'Tok')
    outs = vm.run(fn, [Ref(m.alloc(ham)), Ref(m.alloc(Opaque('math'))), cur], m); n += len(outs); rep.absorb_vm(vm)
    for (m2, k, v) in outs:
        ev = m2.ghost['events']
        if k != 'ret' or not (isinstance(v, Struct) and v.f == ('next options',)) or len(ev) != 1 or ev[0][1] is not cur:
            bad.append(('TransformedHamiltonian::update_stats_options is not transformation.next_stats_options(current)', str(v)[:80]))
    # (3)
    for ty in ('NutsChain', 'MclmcChain'):
        fn = mir.method(ty, 'Chain', 'expanded_draw')
        for tuning in (z3.Bool('progress_tuning'),):
            A, vm = mk_vm(mir, L)
            prog = L.make('Progress', {'draw': z3.Int('d'), 'chain': z3.Int('c'), 'diverging': z3.Bool('div'), 'tuning': tuning, 'step_size': A.fresh('eps'), 'num_steps': z3.Int('ns')})
            def draw(vm, m, c, a):
                outs = []
                for ok in (True, False):
                    m2 = m.clone(); m2.log('events', ('draw', ok)); outs.append((m2, 'ret', OK(Struct((Opaque('position'), prog))) if ok else ERR(Opaque('anyhow(draw)'))))
                return outs
            vm.add_model(r' as chain::Chain<M>>::draw$', draw)
            vm.add_model(r'^RefCell::<M>::borrow_mut$', lambda vm, m, c, a: ret(m, Struct((Ref(m.ghost['math']),), 'RefMut')))
            vm.add_model(r'^<RefMut<.*> as DerefMut>::deref_mut$', lambda vm, m, c, a: ret(m, vm.read_at(m, a[0].cell, a[0].path).f[0]))
            def extract(vm, m, c, a): m.log('events', ('extract_stats', L.get('StatOptions', a[2], 'hamiltonian'))); return ret(m, Opaque('stats'))
            vm.add_model(r' as SamplerStats<M>>::extract_stats$', extract)
            def upd(vm, m, c, a): m.log('events', ('update_stats_options', a[2])); return ret(m, Struct(('new hamiltonian options',), 'Tok'))
            vm.add_model(r' as Hamiltonian<M>>::update_stats_options$', upd)
            vm.add_model(r'^State::<.*>::point$|::position$', lambda vm, m, c, a: ret(m, Opaque('ref')))
            def expand(vm, m, c, a):
                outs = []
                for ok in (True, False):
                    m2 = m.clone(); m2.log('events', ('expand_vector', ok)); outs.append((m2, 'ret', OK(Opaque('expanded')) if ok else ERR(Opaque('math err'))))
                return outs
            vm.add_model(r'^<M as Math>::expand_vector::<', expand)
            m = Machine(); m.ghost['events'] = []; m.ghost['math'] = m.alloc(Opaque('math'))
            old = Struct(('options of the previous draw',), 'Tok')
            so = L.make('StatOptions', {'adapt': Opaque('adapt opts'), 'hamiltonian': old, 'point': Opaque('point opts'), 'divergence': Opaque('div opts')})
            chain = {f: Opaque(f) for f in L.fields(ty)}; chain.update({'stats_options': so, 'math': Opaque('refcell')})
            cc = m.alloc(L.make(ty, chain))
            outs = vm.run(fn, [Ref(cc)], m); n += len(outs); rep.absorb_vm(vm)
            seen_ok = 0
            for (m2, k, v) in outs:
                ev = m2.ghost['events']; names = [e[0] for e in ev]
                if k != 'ret': bad.append(('%s::expanded_draw panics' % ty, str(v)[:100])); continue
                after = L.get('StatOptions', L.get(ty, m2.mem[cc], 'stats_options'), 'hamiltonian')
                if ('draw', False) in ev:
                    if v.name != 'Err' or 'extract_stats' in names: bad.append(('%s::expanded_draw goes on after a failed draw' % ty,))
                    continue
                if names[:3] != ['draw', 'extract_stats', 'update_stats_options']: bad.append(('%s::expanded_draw: statistics are not extracted after the draw and before the options update, or the update is skipped on some draws (events %s, path condition %s)' % (ty, names, [str(c) for c in m2.pc][-2:]),)); continue
                if ev[1][1] is not old: bad.append(('%s::expanded_draw extracts statistics with other options than those stored by the previous draw' % ty,))
                if ev[2][1] is not old: bad.append(('%s::expanded_draw computes the next options from something else than the stored ones' % ty,))
                if not (isinstance(after, Struct) and after.f == ('new hamiltonian options',)): bad.append(('%s::expanded_draw does not store the updated hamiltonian options (the next draw would report the same transformation update again / miss one)' % ty,))
                if v.name == 'Ok': seen_ok += 1
            rep.cover('C16.G %s::expanded_draw Ok path reachable' % ty, seen_ok > 0)
    rep.paths += n
    if bad: rep.violated('C16.G transformation-update tracking across draws', 'update_tracking', 'update-event bookkeeping: %s' % (bad[0],), model={'problems': [str(b)[:300] for b in bad[:6]]})
    else: rep.holds('C16.G update events are tracked per draw: next_stats_options = current id (Diag, LowRank), TransformedHamiltonian::update_stats_options forwards it, NutsChain / MclmcChain::expanded_draw extract with the previous options and store the new ones on every successful draw (%d paths)' % n)
