"""Environment models for leapfrog-level queries (C02, C05, C08, C18): the `Math` trait by the algebraic meaning of
each method on length-d vectors, the density as an oracle, and State/StatePool handles over the real
TransformedPoint layout."""
import re
import z3
from .vm import (VM, Machine, Struct, Enum, Seq, Ref, SliceRef, Opaque, Closure, UNIT, NONE, SOME, OK, ERR, ret, panic, is_sym, VMError, Unmodelled)
from .alg import Fl
from .intrinsics import deref_val, slice_items, as_slice

class MathEnv:
    def __init__(self, vm, d, logp_mode='uf', layouts=None, abstract_dot=False):
        self.vm = vm; self.d = d; self.mode = logp_mode; self.L = layouts; self.abstract_dot = abstract_dot
        self.A = vm.alg; self.nlogp = 0
        self.install()

    # vectors are Seq of d Fl; references to them are Ref(cell, path)
    def vec(self, m, r):
        v = deref_val(self.vm, m, r)
        if isinstance(v, Seq): return list(v.items)
        raise VMError('not a vector: %r' % (v,))
    def setvec(self, m, r, items):
        self.vm.write_at(m, r.cell, list(r.path), Seq(items))
    def fresh_vec(self, m, name):
        return Seq([self.A.fresh('%s_%d_%d' % (name, m.fresh_id(), i)) for i in range(self.d)])

    def install(self):
        vm = self.vm; A = self.A; E = self; d = self.d
        def M(name): return r'^<M as Math>::%s(::<.*>)?$' % name
        zero = lambda: A.const(0.0)
        def dot(xs, ys):
            acc = zero()
            for x, y in zip(xs, ys): acc = A.add(acc, A.mul(x, y))
            return acc
        vm.add_model(M('dim'), lambda vm, m, c, a: ret(m, d))
        vm.add_model(M('new_array'), lambda vm, m, c, a: ret(m, Seq([zero()] * d)))
        vm.add_model(M('copy_array'), lambda vm, m, c, a: ret(m, Seq(E.vec(m, a[1]))))
        def copy_into(vm, m, c, a): E.setvec(m, a[2], E.vec(m, a[1])); return ret(m, UNIT)
        vm.add_model(M('copy_into'), copy_into)
        def fill(vm, m, c, a): E.setvec(m, a[1], [a[2]] * d); return ret(m, UNIT)
        vm.add_model(M('fill_array'), fill)
        def axpy(vm, m, c, a):           # y += a * x
            x, y, k = E.vec(m, a[1]), E.vec(m, a[2]), a[3]; E.setvec(m, a[2], [A.fma(k, xi, yi) for xi, yi in zip(x, y)]); return ret(m, UNIT)
        vm.add_model(M('axpy'), axpy)
        def axpy_out(vm, m, c, a):       # out = y + a * x
            x, y, k = E.vec(m, a[1]), E.vec(m, a[2]), a[3]; E.setvec(m, a[4], [A.fma(k, xi, yi) for xi, yi in zip(x, y)]); return ret(m, UNIT)
        vm.add_model(M('axpy_out'), axpy_out)
        def mult(vm, m, c, a): E.setvec(m, a[3], [A.mul(x, y) for x, y in zip(E.vec(m, a[1]), E.vec(m, a[2]))]); return ret(m, UNIT)
        vm.add_model(M('array_mult'), mult)
        def mult_inplace(vm, m, c, a): E.setvec(m, a[1], [A.mul(x, y) for x, y in zip(E.vec(m, a[1]), E.vec(m, a[2]))]); return ret(m, UNIT)
        vm.add_model(M('array_mult_inplace'), mult_inplace)
        def recip(vm, m, c, a): E.setvec(m, a[2], [A.div(A.const(1.0), x) for x in E.vec(m, a[1])]); return ret(m, UNIT)
        vm.add_model(M('array_recip'), recip)
        def vdot(vm, m, c, a):
            if E.abstract_dot: return ret(m, A.fresh('dot_%d' % m.fresh_id()))
            return ret(m, dot(E.vec(m, a[1]), E.vec(m, a[2])))
        vm.add_model(M('array_vector_dot'), vdot)
        def sum_ln(vm, m, c, a):
            acc = zero()
            for x in E.vec(m, a[1]): acc = A.add(acc, A.call1('ln', x))
            return ret(m, acc)
        vm.add_model(M('array_sum_ln'), sum_ln)
        def sp3(vm, m, c, a):
            p1, n1, p2, x, y = [E.vec(m, a[i]) for i in range(1, 6)]
            w = [A.add(A.sub(p, n), q) for p, n, q in zip(p1, n1, p2)]
            return ret(m, Struct((dot(w, x), dot(w, y))))
        vm.add_model(M('scalar_prods3'), sp3)
        def sp2(vm, m, c, a):
            p1, p2, x, y = [E.vec(m, a[i]) for i in range(1, 5)]
            w = [A.add(p, q) for p, q in zip(p1, p2)]
            return ret(m, Struct((dot(w, x), dot(w, y))))
        vm.add_model(M('scalar_prods2'), sp2)
        def sq_norm_sum(vm, m, c, a):
            acc = zero()
            for x, y in zip(E.vec(m, a[1]), E.vec(m, a[2])):
                s = A.add(x, y); acc = A.add(acc, A.mul(s, s))
            return ret(m, acc)
        vm.add_model(M('sq_norm_sum'), sq_norm_sum)
        def gflow(vm, m, c, a):          # vel_out = vel + eps (pos + grad)
            p, g, v, e = E.vec(m, a[1]), E.vec(m, a[2]), E.vec(m, a[3]), a[5]
            E.setvec(m, a[4], [A.add(vi, A.mul(e, A.add(pi, gi))) for pi, gi, vi in zip(p, g, v)]); return ret(m, UNIT)
        vm.add_model(M('std_norm_grad_flow'), gflow)
        def gflow_in(vm, m, c, a):
            p, g, v, e = E.vec(m, a[1]), E.vec(m, a[2]), E.vec(m, a[3]), a[4]
            E.setvec(m, a[3], [A.add(vi, A.mul(e, A.add(pi, gi))) for pi, gi, vi in zip(p, g, v)]); return ret(m, UNIT)
        vm.add_model(M('std_norm_grad_flow_inplace'), gflow_in)
        def nflow(vm, m, c, a):          # pos_out = p cos + v sin ; vel = -p sin + v cos
            p, v, e = E.vec(m, a[1]), E.vec(m, a[3]), a[4]
            s, co = A.call1('sin', e), A.call1('cos', e)
            E.setvec(m, a[2], [A.add(A.mul(pi, co), A.mul(vi, s)) for pi, vi in zip(p, v)])
            E.setvec(m, a[3], [A.add(A.mul(pi, A.neg(s)), A.mul(vi, co)) for pi, vi in zip(p, v)]); return ret(m, UNIT)
        vm.add_model(M('std_norm_flow'), nflow)
        def all_finite(vm, m, c, a):
            r = True
            for x in E.vec(m, a[1]):
                f = A.is_finite(x); r = f if r is True else (r if f is True else z3.And(r, f))
            return ret(m, r)
        vm.add_model(M('array_all_finite'), all_finite)
        def all_finite_nz(vm, m, c, a):
            cs = []
            for x in E.vec(m, a[1]):
                f = A.is_finite(x)
                if f is not True: cs.append(f)
                cs.append(A.ne(x, A.const(0.0)))
            return ret(m, z3.And(*cs) if cs else True)
        vm.add_model(M('array_all_finite_and_nonzero'), all_finite_nz)
        def box_array(vm, m, c, a):
            cell = m.alloc(Seq(E.vec(m, a[1]))); return ret(m, Struct((Struct((SliceRef(cell, (), 0, d),)), UNIT), 'Box'))
        vm.add_model(M('box_array'), box_array)
        def read_from_slice(vm, m, c, a): E.setvec(m, a[1], slice_items(vm, m, a[2])); return ret(m, UNIT)
        vm.add_model(M('read_from_slice'), read_from_slice)
        def write_to_slice(vm, m, c, a):
            dst = as_slice(vm, m, a[2]); s = vm.read_at(m, dst.cell, dst.path); items = list(s.items); items[dst.start:dst.start + dst.count] = E.vec(m, a[1])
            vm.write_at(m, dst.cell, list(dst.path), Seq(items)); return ret(m, UNIT)
        vm.add_model(M('write_to_slice'), write_to_slice)
        def gaussian(vm, m, c, a):
            k = m.fresh_id(); stds = E.vec(m, a[3])
            z = [A.fresh('z_%d_%d' % (k, i)) for i in range(d)]
            m.log('events', ('array_gaussian', tuple(str(s.v) for s in stds)))
            E.setvec(m, a[2], [A.mul(zi, si) for zi, si in zip(z, stds)]); return ret(m, UNIT)
        vm.add_model(M('array_gaussian'), gaussian)
        def normalize(vm, m, c, a):
            k = m.fresh_id(); u = [A.fresh('unit_%d_%d' % (k, i)) for i in range(d)]
            m.log('events', ('array_normalize',)); m.log('unit_vectors', tuple(x.v for x in u)); m.log('normalize_inputs', tuple(x.v for x in E.vec(m, a[1])))
            E.setvec(m, a[1], u); return ret(m, UNIT)
        vm.add_model(M('array_normalize'), normalize)
        def esh(vm, m, c, a):
            k = m.fresh_id(); u = [A.fresh('esh_%d_%d' % (k, i)) for i in range(d)]
            dke = A.fresh('dke_%d' % k); m.log('events', ('esh_momentum_update', str(a[3].v))); m.log('unit_vectors', tuple(x.v for x in u))
            m.log('esh_calls', (tuple(x.v for x in E.vec(m, a[1])), tuple(x.v for x in E.vec(m, a[2])), a[3].v, tuple(x.v for x in u), dke.v))
            E.setvec(m, a[2], u); return ret(m, dke)
        vm.add_model(M('esh_momentum_update'), esh)
        # CpuMath per-element update kernels: the *real* per-element closures of cpu_math.rs are executed for each coordinate
        def elem_kernel(method, arrays, scalars):
            """arrays: list of (arg index, mutable?) in the order of the closure's tuple; scalars: {capture name: value getter(a)}"""
            def h(vm, m, c, a):
                mir = vm.mir
                hits = [n for n in mir.fns if n.endswith('::%s::{closure#0}::{closure#0}' % method) and 'cpu_math' in n]
                if len(hits) != 1: raise VMError('element closure of %s: %d candidates' % (method, len(hits)))
                cfn = mir.get(hits[0]); caps = cfn.captures()
                vals = {}
                for nm, get in scalars.items():
                    if nm in caps: vals[nm] = get(a)          # a scalar the closure no longer uses is simply not captured
                if not set(caps) <= set(scalars): raise VMError('closure of %s captures something this environment does not know: %s' % (method, sorted(set(caps) - set(scalars))))
                fields = [None] * len(caps)
                for nm, (idx, byref) in caps.items():
                    fields[idx] = Ref(m.alloc(vals[nm])) if byref else vals[nm]
                clo = Ref(m.alloc(Closure(cfn.args[0][1].lstrip('&mut ').strip(), fields, None)))
                ms = [m]
                for i in range(d):
                    nxt = []
                    for m1 in ms:
                        item = Struct([Ref(a[j].cell, a[j].path + (('i', i),)) for (j, _) in arrays])
                        for (m2, k, v) in vm.exec_fn(m1, cfn, [clo, item]):
                            if k != 'ret': return [(m2, k, v)]
                            nxt.append(m2)
                    ms = nxt
                return [(m1, 'ret', UNIT) for m1 in ms]
            return h
        vm.add_model(M('array_update_variance'), elem_kernel('array_update_variance', [(1, True), (2, True), (3, False)], {'diff_scale': lambda a: a[4]}))
        vm.add_model(M('array_update_var_inv_std_draw'), elem_kernel('array_update_var_inv_std_draw', [(2, True), (1, True), (3, False)],
                     {'scale': lambda a: a[4], 'fill_invalid': lambda a: a[5], 'clamp__0': lambda a: a[6].f[0], 'clamp__1': lambda a: a[6].f[1]}))
        vm.add_model(M('array_update_var_inv_std_draw_grad'), elem_kernel('array_update_var_inv_std_draw_grad', [(2, True), (1, True), (3, False), (4, False)],
                     {'fill_invalid': lambda a: a[5], 'clamp__0': lambda a: a[6].f[0], 'clamp__1': lambda a: a[6].f[1]}))
        vm.add_model(M('array_update_var_inv_std_grad'), elem_kernel('array_update_var_inv_std_grad', [(2, True), (1, True), (3, False)],
                     {'fill_invalid': lambda a: a[4], 'clamp__0': lambda a: a[5].f[0], 'clamp__1': lambda a: a[5].f[1]}))
        # low-rank map: out = (I + U (diag(vals) - I) U^T) x, U given as a Seq of columns
        def lowrank(x, U, vals):
            out = list(x)
            for col, lam in zip(U, vals):
                c = dot(col, x); f = A.mul(A.sub(lam, A.const(1.0)), c)
                out = [A.add(o, A.mul(ui, f)) for o, ui in zip(out, col)]
            return out
        def eig(m, r):
            v = deref_val(vm, m, r); return [list(cc.items) for cc in v.items]
        def lr_out(vm, m, c, a):
            E.setvec(m, a[4], lowrank(E.vec(m, a[3]), eig(m, a[1]), E.vec(m, a[2]))); return ret(m, UNIT)
        def lr_in(vm, m, c, a):
            E.setvec(m, a[3], lowrank(E.vec(m, a[3]), eig(m, a[1]), E.vec(m, a[2]))); return ret(m, UNIT)
        vm.add_model(M('apply_lowrank_transform'), lr_out)
        vm.add_model(M('apply_lowrank_transform_inplace'), lr_in)
        vm.add_model(M('logp_array'), self.logp_array)
        vm.add_model(r' as LogpError>::is_recoverable$', lambda vm, m, c, a: ret(m, deref_val(vm, m, a[0]).f[0] == 'rec'))

    def logp_array(self, vm, m, c, a):
        A = self.A; d = self.d
        x = self.vec(m, a[1]); self.nlogp += 1
        if self.mode == 'uf':
            R = z3.RealSort()
            U = z3.Function('U', *([R] * (d + 1)))
            G = [z3.Function('G%d' % i, *([R] * (d + 1))) for i in range(d)]
            xs = [xi.v for xi in x]
            self.setvec(m, a[2], [Fl(G[i](*xs)) for i in range(d)])
            m.log('events', ('logp', tuple(str(z3.simplify(v)) for v in xs)))
            return ret(m, OK(Fl(U(*xs))))
        if self.mode == 'normal':
            self.setvec(m, a[2], [A.neg(xi) for xi in x])
            acc = A.const(0.0)
            for xi in x: acc = A.add(acc, A.mul(xi, xi))
            return ret(m, OK(A.mul(A.const(-0.5), acc)))
        if self.mode == 'fault':
            k = m.fresh_id(); outs = []
            for kind in ('ok', 'rec', 'unrec'):
                m2 = m.clone(); m2.log('events', ('logp', kind))
                if kind == 'ok':
                    self.setvec(m2, a[2], [A.fresh('grad_%d_%d' % (k, i)) for i in range(d)])
                    outs.append((m2, 'ret', OK(A.fresh('logp_%d' % k))))
                else:
                    outs.append((m2, 'ret', ERR(Struct((kind,), 'LogpErrOracle'))))
            return outs
        raise VMError('logp mode ' + self.mode)

# ----------------------------------------------------------------------------------------------
class StateEnv:
    """State<M, TransformedPoint<M>> handles: a handle is Struct((Ref(cell),), 'StateR'); the point lives in `cell`.
    clone = alias (reference counted in m.ghost['rc']), try_point_mut succeeds iff the handle is unshared."""
    def __init__(self, vm, mir):
        self.vm = vm; self.mir = mir
        self.point_new = mir.method('TransformedPoint', 'Point', 'new')
        self.install()
    def new_state(self, m, math_ref):
        outs = list(self.vm.exec_fn(m, self.point_new, [math_ref]))
        (m2, k, pt) = outs[0]
        cell = m2.alloc(pt); rc = dict(m2.ghost.get('rc', {})); rc[cell] = 1; m2.ghost['rc'] = rc
        return m2, Struct((Ref(cell),), 'StateR')
    def handle_of(self, m, v):
        v = deref_val(self.vm, m, v)
        if isinstance(v, Struct) and v.ty == 'StateR': return v
        raise VMError('not a state: %r' % (v,))
    def install(self):
        vm = self.vm; S = self
        def new_state(vm, m, c, a):
            m2, h = S.new_state(m, a[1]); return ret(m2, h)
        vm.add_model(r'^StatePool::<M, .*>::new_state$', new_state)
        def try_point_mut(vm, m, c, a):
            h = S.handle_of(m, a[0]); cell = h.f[0].cell
            if m.ghost.get('rc', {}).get(cell, 1) == 1: return ret(m, OK(h.f[0]))
            return ret(m, ERR(Opaque('state is shared')))
        vm.add_model(r'^State::<M, .*>::try_point_mut$', try_point_mut)
        vm.add_model(r'^State::<M, .*>::point$', lambda vm, m, c, a: ret(m, S.handle_of(m, a[0]).f[0]))
        def clone(vm, m, c, a):
            h = S.handle_of(m, a[0]); cell = h.f[0].cell; rc = dict(m.ghost.get('rc', {})); rc[cell] = rc.get(cell, 1) + 1; m.ghost['rc'] = rc
            return ret(m, h)
        vm.add_model(r'^<State<M, .*> as Clone>::clone$', clone)
        def idx(vm, m, c, a):
            h = S.handle_of(m, a[0]); pt = vm.read_at(m, h.f[0].cell, h.f[0].path)
            return vm.exec_fn(m, self.mir.method('TransformedPoint', 'Point', 'index_in_trajectory'), [h.f[0]])
        vm.add_model(r'^State::<M, .*>::index_in_trajectory$', idx)
        def energy(vm, m, c, a):
            h = S.handle_of(m, a[0]); return vm.exec_fn(m, self.mir.method('TransformedPoint', 'Point', 'energy'), [h.f[0]])
        vm.add_model(r'^State::<M, .*>::energy$', energy)
        def write_position(vm, m, c, a):
            h = S.handle_of(m, a[0]); return ret(m, UNIT)
        def on_drop(vm, m, v):
            if isinstance(v, Struct) and v.ty == 'StateR':
                cell = v.f[0].cell; rc = dict(m.ghost.get('rc', {})); rc[cell] = rc.get(cell, 1) - 1; m.ghost['rc'] = rc
        vm.on_drop = on_drop

def install_misc(vm):
    """error plumbing that carries no information relevant to any query"""
    vm.add_model(r'^Arc::<.*>::new$', lambda vm, m, c, a: ret(m, Struct((a[0],), 'Arc')))
    vm.add_model(r'^anyhow::__private::|^anyhow::Error::|^<anyhow::Error as |^anyhow::error::', lambda vm, m, c, a: ret(m, Opaque('anyhow')))
    vm.add_model(r'^<Box<dyn (std::error::|core::error::|Std)?Error \+ Send \+ Sync> as From<.*>>::from$', lambda vm, m, c, a: ret(m, Struct((a[0],), 'BoxDynError')))
    vm.add_model(r' as Into<Box<dyn (std::error::|core::error::|Std)?Error \+ Send \+ Sync>>>::into$', lambda vm, m, c, a: ret(m, Struct((a[0],), 'BoxDynError')))
    vm.add_model(r'^core::fmt::rt::|^Arguments::<|^std::fmt::format|^alloc::fmt::format|^format$', lambda vm, m, c, a: ret(m, Opaque('fmt')))
    vm.add_model(r'^must_use::<', lambda vm, m, c, a: ret(m, a[0]))
